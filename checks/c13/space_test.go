package c13

import (
	"math"

	"github.com/arloliu/go-secs/v2/secs2"

	"verif/gen"
)

// grammarBytes: the 19 bytes that interact with the SML grammar (DESIGN.md C13).
var grammarBytes = []byte{'"', '\'', '\\', '>', '<', ' ', 'a', '0', 'x', 0x00, '\n', 0x7F, 0x80, 0xFF, '.', '/', '*', '[', ']'}

// utf8Bytes: 'a' and the bytes of U+FFFD (EF BF BD), é (C3 A9), € (E2 82 AC), U+1F600 (F0 9F 98 80), an
// overlong lead byte (C0) and an invalid byte (FF).
var utf8Bytes = []byte{'a', 0xEF, 0xBF, 0xBD, 0xC3, 0xA9, 0xE2, 0x82, 0xAC, 0xF0, 0x9F, 0x98, 0x80, 0xC0, 0xFF}

// byteOrder: all 256 byte values, the grammar-relevant ones first (simplest-first ordering).
func byteOrder() []byte {
	seen := [256]bool{}
	out := make([]byte, 0, 256)
	for _, b := range grammarBytes {
		out = append(out, b)
		seen[b] = true
	}
	for i := 0; i < 256; i++ {
		if !seen[i] {
			out = append(out, byte(i))
		}
	}
	return out
}

// allStrings enumerates every string of exactly n symbols over alpha (alpha entries may be
// multi-byte).
func allStrings(alpha []string, n int, yield func(string) bool) bool {
	idx := make([]int, n)
	buf := make([]byte, 0, 4*n)
	for {
		buf = buf[:0]
		for _, i := range idx {
			buf = append(buf, alpha[i]...)
		}
		if !yield(string(buf)) {
			return false
		}
		k := n - 1
		for k >= 0 {
			idx[k]++
			if idx[k] < len(alpha) {
				break
			}
			idx[k] = 0
			k--
		}
		if k < 0 {
			return true
		}
	}
}

func bytesAlpha(bs []byte) []string {
	r := make([]string, len(bs))
	for i, b := range bs {
		r[i] = string([]byte{b})
	}
	return r
}

func intVals(w int) []int64 {
	minV := int64(-1) << (8*uint(w) - 1)
	return []int64{0, 1, -1, minV, -(minV + 1)}
}

func uintVals(w int) []uint64 {
	maxV := ^uint64(0) >> (64 - 8*uint(w))
	return []uint64{0, 1, maxV, maxV>>1 + 1}
}

func f4Vals() []float64 {
	f := func(x float32) float64 { return float64(x) }
	return []float64{0, math.Copysign(0, -1), 1, -1, math.NaN(), math.Inf(1), math.Inf(-1),
		math.SmallestNonzeroFloat32, math.MaxFloat32, -math.MaxFloat32,
		f(math.Float32frombits(0x00800000)), // smallest normal
		f(0.1),                              // 0.100000001: needs 9 significant digits
		f(math.Float32frombits(0x3F800001)), // 1.00000012
		f(math.Float32frombits(0x4B800001)), // 16777218
		f(1.0 / 3),
		f(math.Float32frombits(0x447A0001)), // 1000.00006: 8 significant digits collide with its neighbour
		f(math.Float32frombits(0x3A83126F)), // 0.00100000005
		f(math.Float32frombits(0x7FC00001)), // NaN with payload
	}
}

func f8Vals() []float64 {
	return []float64{0, math.Copysign(0, -1), 1, -1, math.NaN(), math.Inf(1), math.Inf(-1),
		math.SmallestNonzeroFloat64, math.MaxFloat64, -math.MaxFloat64, math.MaxFloat32,
		math.Float64frombits(0x0010000000000000), // smallest normal
		0.1,                                      // 0.10000000000000001 in G17
		0.1 + 0.2,                                // 0.30000000000000004: needs 17 significant digits
		math.Float64frombits(0x3FF0000000000001), // 1.0000000000000002
		123456789.12345678,
		1.0 / 3,
		math.Float64frombits(0xFFF8000000000001), // negative NaN with payload
	}
}

// vectors: n=0; n=1 each value; n=2 all ordered pairs; n=3 cyclic triples.
func vectors[T any](vals []T, yield func([]T) bool) bool {
	if !yield([]T{}) {
		return false
	}
	for _, v := range vals {
		if !yield([]T{v}) {
			return false
		}
	}
	for _, a := range vals {
		for _, b := range vals {
			if !yield([]T{a, b}) {
				return false
			}
		}
	}
	n := len(vals)
	for i := range vals {
		if !yield([]T{vals[i], vals[(i+1)%n], vals[(i+2)%n]}) {
			return false
		}
	}
	return true
}

// safe text alphabets ---------------------------------------------------------------------------

func safeASCII() []string {
	var r []string
	for c := 0x20; c <= 0x7E; c++ {
		if !restrictedByte(byte(c)) {
			r = append(r, string([]byte{byte(c)}))
		}
	}
	return r
}

// jis8Alpha: the safe printable ASCII plus every byte 0x80..0xFF.
func jis8Alpha() []string {
	r := safeASCII()
	for c := 0x80; c <= 0xFF; c++ {
		r = append(r, string([]byte{byte(c)}))
	}
	return r
}

// localAlpha: the safe printable ASCII plus printable non-ASCII characters of 2, 3 and 4 UTF-8 bytes.
func localAlpha() []string {
	return append(safeASCII(), "é", "ÿ", "ß", "あ", "ｱ", "中", "€", "😀")
}

// grayLocal: localized texts outside what the property can promise (see localClass).
var grayLocal = []string{"\u00a0", "\u00ad", "\u2028", "\ufeff", "\ue000", "a\u00a0b", "\x80", "\xa1", "\xff", "a\xe9b", "\xc3"}

var lshCycle = []uint16{2, 0, 1, 0x0102, 0xFFFF}

// treeLeaves: the leaf alphabet for nested bodies.
func treeLeaves() []gen.SmallLeaf {
	mk := func(name string, f func() secs2.Item) gen.SmallLeaf { return gen.SmallLeaf{Name: name, Mk: f} }
	return []gen.SmallLeaf{
		mk("L[]", func() secs2.Item { return secs2.NewListItem() }),
		mk(`A""`, func() secs2.Item { return secs2.A("") }),
		mk(`A-quotes`, func() secs2.Item { return secs2.A(`a"'\ b`) }),
		mk(`A-nonprint`, func() secs2.Item { return secs2.A("\x00x\n\x7f\x80\xff") }),
		mk(`A-gt`, func() secs2.Item { return secs2.A("a>b") }),
		mk("U1[1]", func() secs2.Item { return secs2.U1(255) }),
		mk("I8[2]", func() secs2.Item { return secs2.I8(int64(math.MinInt64), int64(math.MaxInt64)) }),
		mk("F4[2]", func() secs2.Item { return secs2.F4(float32(math.NaN()), float32(math.Copysign(0, -1))) }),
		mk("F8[1]", func() secs2.Item { return secs2.F8(math.SmallestNonzeroFloat64) }),
		mk("B[2]", func() secs2.Item { return secs2.B(byte(0), byte(0xFF)) }),
		mk("BOOLEAN[2]", func() secs2.Item { return secs2.BOOLEAN(true, false) }),
		mk("J", func() secs2.Item { return secs2.J("j k.\xb1") }),
		mk("W", func() secs2.Item { return secs2.W("w é;") }),
	}
}

// Bodies enumerates the full body set in a fixed order, simplest first. class is a short
// constant label of the family the body belongs to.
func Bodies(thorough bool, yield func(class string, it secs2.Item) bool) bool {
	if !yield("empty-body", secs2.NewEmptyItem()) {
		return false
	}
	// ASCII: all strings of length <= 2 over all 256 byte values
	all := bytesAlpha(byteOrder())
	for n := 0; n <= 2; n++ {
		if !allStrings(all, n, func(s string) bool { return yield("ascii<=2/256", secs2.NewASCIIItem(s)) }) {
			return false
		}
	}
	// ASCII: length 3..4 over the 19 grammar-relevant bytes
	gb := bytesAlpha(grammarBytes)
	for n := 3; n <= 4; n++ {
		if !allStrings(gb, n, func(s string) bool { return yield("ascii3-4/19", secs2.NewASCIIItem(s)) }) {
			return false
		}
	}
	// ASCII: length 3..4 over the bytes of multi-byte UTF-8 (an ASCII item is a byte string; code that
	// walks it rune-wise meets U+FFFD itself EF BF BD, 2-, 3- and 4-byte characters, their truncations,
	// stray continuation bytes, overlong and invalid lead bytes)
	ub := bytesAlpha(utf8Bytes)
	for n := 3; n <= 4; n++ {
		if !allStrings(ub, n, func(s string) bool { return yield("ascii3-4/utf8", secs2.NewASCIIItem(s)) }) {
			return false
		}
	}
	// numerics
	for _, w := range []int{1, 2, 4, 8} {
		if !vectors(intVals(w), func(v []int64) bool { return yield("int", secs2.NewIntItem(w, v)) }) {
			return false
		}
		if !vectors(uintVals(w), func(v []uint64) bool { return yield("uint", secs2.NewUintItem(w, v)) }) {
			return false
		}
	}
	if !vectors(f4Vals(), func(v []float64) bool { return yield("f4", secs2.NewFloatItem(4, v)) }) {
		return false
	}
	if !vectors(f8Vals(), func(v []float64) bool { return yield("f8", secs2.NewFloatItem(8, v)) }) {
		return false
	}
	// binary: all vectors of 0..3 elements over six byte values; one long vector of every byte
	bv := bytesAlpha([]byte{0x00, 0xFF, 0x01, 0x7F, 0x80, 0x41})
	for n := 0; n <= 3; n++ {
		if !allStrings(bv, n, func(s string) bool { return yield("binary", secs2.NewBinaryItem([]byte(s))) }) {
			return false
		}
	}
	every := make([]byte, 256)
	for i := range every {
		every[i] = byte(i)
	}
	if !yield("binary", secs2.NewBinaryItem(every)) {
		return false
	}
	// boolean: all vectors of 0..3 elements
	for n := 0; n <= 3; n++ {
		for m := 0; m < 1<<n; m++ {
			v := make([]bool, n)
			for i := range v {
				v[i] = m>>i&1 == 1
			}
			if !yield("boolean", secs2.NewBooleanItem(v)) {
				return false
			}
		}
	}
	// JIS-8 and localized text over the safe alphabets: all strings of length <= 2, length 3 over a subset
	ja := jis8Alpha()
	for n := 0; n <= 2; n++ {
		if !allStrings(ja, n, func(s string) bool { return yield("jis8", secs2.NewJIS8Item(s)) }) {
			return false
		}
	}
	sub := []string{" ", "a", "0", ".", "/", "*", "[", "]", ":", "\xb1"}
	if !allStrings(sub, 3, func(s string) bool { return yield("jis8", secs2.NewJIS8Item(s)) }) {
		return false
	}
	la := localAlpha()
	k := 0
	for n := 0; n <= 2; n++ {
		if !allStrings(la, n, func(s string) bool {
			k++
			return yield("localized", secs2.NewLocalizedStrItem(lshCycle[k%len(lshCycle)], s))
		}) {
			return false
		}
	}
	sub[len(sub)-1] = "é"
	if !allStrings(sub, 3, func(s string) bool { return yield("localized", secs2.NewUTF8StrItem(s)) }) {
		return false
	}
	for _, s := range grayLocal {
		if !yield("localized-gray", secs2.NewUTF8StrItem(s)) {
			return false
		}
	}
	// nesting: every ordered tree with <= N nodes over 13 leaves (N=4: nesting <= 3; thorough N=5: nesting <= 4)
	nodes := 4
	if thorough {
		nodes = 5
	}
	ok := true
	gen.Trees(nodes, treeLeaves(), func(cs gen.Case) bool {
		if cs.It.IsList() { // single leaves are covered above
			ok = yield("tree", cs.It)
		}
		return ok
	})
	if !ok {
		return false
	}
	// deep and bushy nesting: chains up to the decoder's depth limit, and many empty lists before
	// and beside a deep list (parser or encoder state that accumulates across sibling lists)
	for _, d := range []int{15, 16, 17, 32, 63, 64} {
		if !yield("deep", gen.Chain(d).It) {
			return false
		}
	}
	for _, b := range [][4]int{{1, 0, 0, 63}, {1, 0, 0, 64}, {1, 0, 0, 200}, {2, 1, 64, 64}, {31, 1, 40, 1}, {41, 1, 26, 0}, {63, 62, 1, 1}, {64, 63, 1, 0}, {33, 32, 3, 0}} {
		if !yield("bushy", gen.Bushy(b[0], b[1], b[2], b[3]).It) {
			return false
		}
	}
	// lists with an EmptyItem child (outside the stated grammar: observed, not demanded)
	for _, it := range []secs2.Item{
		secs2.NewListItem(secs2.NewEmptyItem()),
		secs2.NewListItem(secs2.U1(1), secs2.NewEmptyItem()),
		secs2.NewListItem(secs2.NewListItem(secs2.NewEmptyItem(), secs2.A("x"))),
	} {
		if !yield("list-with-emptyitem", it) {
			return false
		}
	}
	return true
}

// ThinBodies is the thinned body set used for the header product.
func ThinBodies() []secs2.Item {
	return []secs2.Item{
		secs2.NewEmptyItem(),
		secs2.A(""), secs2.A("a"), secs2.A(`q"'\`), secs2.A("\x00\n\x7f\xff"), secs2.A("S1F1 W."), secs2.A(":"), secs2.A("x>"),
		secs2.U1(), secs2.U1(0, 255), secs2.I8(int64(math.MinInt64)), secs2.U8(uint64(math.MaxUint64)),
		secs2.F4(float32(math.NaN()), float32(0.1)), secs2.F8(math.Inf(-1), 0.1+0.2),
		secs2.B(), secs2.B(byte(0), byte(0xFF)), secs2.BOOLEAN(), secs2.BOOLEAN(true, false),
		secs2.J(""), secs2.J("j: S2F2 W.\xb1"), secs2.W(""), secs2.W("w: é."),
		secs2.NewListItem(),
		secs2.NewListItem(secs2.A("a"), secs2.NewListItem(secs2.U1(1), secs2.NewListItem())),
		secs2.NewListItem(secs2.NewListItem(secs2.NewListItem(secs2.A(`"`), secs2.F8(1)))),
	}
}

// Header is one legal (stream, function, W) combination.
type Header struct {
	S, F uint8
	W    bool
}

// Headers: stream {0,1,127} x function {0,1,2,255} x W, W only on odd functions.
func Headers() []Header {
	var r []Header
	for _, s := range []uint8{0, 1, 127} {
		for _, f := range []uint8{0, 1, 2, 255} {
			r = append(r, Header{s, f, false})
			if f%2 == 1 {
				r = append(r, Header{s, f, true})
			}
		}
	}
	return r
}

// Tokens is the C14 token alphabet.
var Tokens = []string{"S1F1", " W", "\n", "<", ">", "L", "A", "B", "U1", "F4", "BOOLEAN", "T", "[", "]", "2", `"`, "'", ".", " ", "//", "/*", "*/", "0x41", `\`, "é", ":"}

// Context wraps a token sequence so that short sequences complete into whole messages.
type Context struct{ Pre, Suf string }

// Contexts: the bare sequence first, then seeded prefixes/suffixes.
var Contexts = []Context{
	{"", ""},
	{"S1F1 W <", ""},
	{"S1F1 W <", ">."},
	{"S1F1 W <A ", ">."},
	{"S1F1 <L <", ">>."},
}
