// C13 — strict SML encoding and strict parsing are mutual inverses on messages.
// Engine E1: bounded-exhaustive enumeration of messages x encoder options (first half) and of
// parser-accepted token texts (second half); the oracle is the round-trip identity itself,
// compared through the public accessors.
package c13

import (
	"encoding/json"
	"fmt"
	"runtime/debug"
	"strings"
	"testing"

	"github.com/arloliu/go-secs/v2/hsms"
	"github.com/arloliu/go-secs/v2/secs2"
	"github.com/arloliu/go-secs/v2/sml"

	"verif/vfw"
)

// Known stable key of DESIGN.md finding F1.
const keyGT = "ascii-gt-unescaped"

func parseStrict(text string) (msgs []*hsms.DataMessage, err error, panicked any) {
	defer func() {
		if r := recover(); r != nil {
			panicked = r
		}
	}()
	msgs, err = sml.ParseStrict(text)
	return msgs, err, nil
}

func clip(s string) string {
	if len(s) > 160 {
		return s[:160] + "..."
	}
	return s
}

// RoundTrip renders (s, f, w, body) with enc, parses the text strictly and compares.
// It returns "" or the stable failure key and a (lazily built) description.
func RoundTrip(enc *sml.Encoder, h Header, body secs2.Item) (string, func() string) {
	class := body.Type() // failure keys name the body's item type, so a replay reproduces the same key
	msg, err := hsms.NewDataMessage(h.S, h.F, h.W, 0, [4]byte{}, body)
	if err != nil {
		return "harness", func() string { return fmt.Sprintf("NewDataMessage(S%dF%d W=%v) failed: %v", h.S, h.F, h.W, err) }
	}
	text, err := enc.EncodeMessage(msg)
	if err != nil {
		return "roundtrip:encode-error:" + class, func() string { return "EncodeMessage failed: " + err.Error() }
	}
	return reparse(text, h, body, class)
}

// singleEntry: the single-message entry point of the strict parser must agree with ParseStrict
// on the strict encoder's output (run for the default option combination only).
func singleEntry(enc *sml.Encoder, h Header, body secs2.Item) (string, func() string) {
	msg, err := hsms.NewDataMessage(h.S, h.F, h.W, 0, [4]byte{}, body)
	if err != nil {
		return "", nil
	}
	text, err := enc.EncodeMessage(msg)
	if err != nil {
		return "", nil
	}
	m, err := sml.NewParser(sml.WithParserStrictMode(true)).ParseMessage(text)
	if err != nil {
		if strings.Contains(err.Error(), "unclosed quote string") && asciiHasGT(body) {
			return keyGT, func() string { return fmt.Sprintf("ParseMessage rejects %q: %v", clip(text), err) }
		}
		return "roundtrip:parsemessage-error:" + body.Type(), func() string {
			return fmt.Sprintf("strict Parser.ParseMessage rejects the strict encoder's output %q: %v", clip(text), err)
		}
	}
	got, err := m.Item()
	if err != nil || m.Stream() != h.S || m.Function() != h.F || m.WaitBit() != h.W || Same(body, got) != "" {
		return "roundtrip:parsemessage:" + body.Type(), func() string {
			return fmt.Sprintf("strict Parser.ParseMessage returns a different message for %q (S%dF%d W=%v, body: %s, err %v)", clip(text), m.Stream(), m.Function(), m.WaitBit(), Same(body, got), err)
		}
	}
	return "", nil
}

func reparse(text string, h Header, body secs2.Item, class string) (string, func() string) {
	msgs, err, pan := parseStrict(text)
	if pan != nil {
		return "roundtrip:parse-panic:" + class, func() string {
			return fmt.Sprintf("ParseStrict panicked on the strict encoder's output %q: %v", clip(text), pan)
		}
	}
	if err != nil {
		if strings.Contains(err.Error(), "unclosed quote string") && asciiHasGT(body) {
			return keyGT, func() string {
				return fmt.Sprintf("the strict encoder writes '>' unescaped inside a quoted run and ParseStrict rejects its output %q: %v", clip(text), err)
			}
		}
		return "roundtrip:parse-error:" + class, func() string {
			return fmt.Sprintf("ParseStrict rejects the strict encoder's output %q: %v", clip(text), err)
		}
	}
	if len(msgs) != 1 {
		return "roundtrip:count:" + class, func() string {
			return fmt.Sprintf("ParseStrict returned %d messages for one encoded message %q", len(msgs), clip(text))
		}
	}
	m := msgs[0]
	if m.Stream() != h.S || m.Function() != h.F || m.WaitBit() != h.W {
		return "roundtrip:header:" + class, func() string {
			return fmt.Sprintf("S%dF%d W=%v came back as S%dF%d W=%v from %q", h.S, h.F, h.W, m.Stream(), m.Function(), m.WaitBit(), clip(text))
		}
	}
	got, err := m.Item()
	if err != nil {
		return "roundtrip:item-error:" + class, func() string { return "parsed message body: " + err.Error() }
	}
	if d := Same(body, got); d != "" {
		return "roundtrip:body:" + class, func() string { return fmt.Sprintf("body changed%s (text %q)", d, clip(text)) }
	}
	return "", nil
}

// MsgCase is the replayable form of one first-half case.
type MsgCase struct {
	Kind string `json:"kind"` // "msg"
	Body *Spec  `json:"body"`
	Opts Opt    `json:"opts"` // [asciiQuote, sfQuote, indent, binaryStyle] indexes
	S    uint8  `json:"s"`
	F    uint8  `json:"f"`
	W    bool   `json:"w"`
	Desc string `json:"opts_desc,omitempty"`
}

// TextCase is the replayable form of one second-half case.
type TextCase struct {
	Kind string `json:"kind"` // "text"
	Text string `json:"text"`
}

// textResult classifies one input text of the second half.
type textResult struct {
	accepted   bool
	nmsg       int
	outside    int // messages skipped: JIS-8/localized text outside the restriction (or gray)
	roundtrips int
	key, msg   string
}

// CheckText: if ParseStrict accepts text, every message whose JIS-8/localized items obey the
// restriction must re-encode (strict encoder, every option combination) and re-parse to an
// equal message.
func CheckText(text string, encs []*sml.Encoder) (r textResult) {
	msgs, err, pan := parseStrict(text)
	if pan != nil || err != nil {
		return r
	}
	r.accepted = true
	r.nmsg = len(msgs)
	for _, m := range msgs {
		body, err := m.Item()
		if err != nil {
			r.key, r.msg = "text:item-error", "accepted message has no body: "+err.Error()
			return r
		}
		cls, emptyChild := bodyClass(body)
		if cls != textOK || emptyChild {
			r.outside++
			continue
		}
		h := Header{m.Stream(), m.Function(), m.WaitBit()}
		for _, enc := range encs {
			text2, err := enc.EncodeMessage(m)
			if err != nil {
				r.key, r.msg = "text:encode-error", "EncodeMessage of a parsed message failed: "+err.Error()
				return r
			}
			r.roundtrips++
			if k, d := reparse(text2, h, body, "text"); k != "" {
				r.key, r.msg = k, fmt.Sprintf("accepted text %q parsed, re-encoded, re-parsed: %s", text, d())
				return r
			}
		}
	}
	return r
}

func TestCheck(t *testing.T) {
	vfw.Main(t, "C13", func(c *vfw.Ctx) {
		c.Level("exploration")
		// the work is millions of tiny short-lived allocations with a live heap of a few KB:
		// collect by heap size, not by growth ratio (16 shard processes share the machine)
		debug.SetGCPercent(-1)
		debug.SetMemoryLimit(64 << 20)
		opts := AllOpts()
		encs := make([]*sml.Encoder, len(opts))
		for i, o := range opts {
			encs[i] = o.Encoder()
		}
		maxTok := 4
		if c.Thorough() {
			maxTok = 5
		}
		c.Rule(fmt.Sprintf("E1 enumeration, first half: every body of the set B x all %d strict-encoder option combinations (ASCII quote {double,single,none=double} x S/F quote {none,double,single} x indent {two spaces, empty, tab} x binary {hex,0b literal}) with header S1F1 W, plus the 18 legal headers (stream {0,1,127} x function {0,1,2,255} x W only on odd functions) x 25 thinned bodies x all option combinations. plus ALL 49,152 legal headers (128 streams x 256 functions, W on odd functions) x {empty body, one small body} x all option combinations. B = empty body; ASCII items of ALL strings of length <= 2 over the 256 byte values (65,793) and of length 3-4 over the 19 grammar-relevant bytes (137,180) and over 15 bytes of multi-byte UTF-8 (U+FFFD itself, 2/3/4-byte characters, continuation / overlong / invalid bytes; 54,000); I1..I8/U1..U8/F4/F8 vectors (n=0, n=1 each value, n=2 all ordered pairs, n=3 cyclic triples) over {0,±1,min,max} resp. {0,1,max,hi-bit} resp. {±0,±1,NaN (with and without payload),±Inf,smallest subnormal,smallest normal,±max,MaxFloat32,9- and 17-significant-digit values,1/3}; binary vectors of 0..3 elements over {00,FF,01,7F,80,41} and all 256 bytes; all boolean vectors of 0..3 elements; JIS-8 text: all strings of length <= 2 over printable ASCII minus quote/backslash/angle brackets plus every byte 0x80..0xFF, length 3 over 10 symbols; localized text (5 header values): all strings of length <= 2 over the same printable ASCII plus 8 printable non-ASCII characters (2-4 UTF-8 bytes), length 3 over 10 symbols; every list tree with <= %d nodes over 13 leaves (empty list, 4 ASCII leaves incl. quotes/backslash, non-printables and '>', numerics with extremes, binary, boolean, JIS-8, localized). Oracle: NewEncoder(strict, opts).EncodeMessage then ParseStrict (and, for the default combination, the strict Parser.ParseMessage) gives exactly one message with the same stream/function/W and the same body (accessor comparison; any NaN equals any NaN; localized header ignored). Observed but not demanded (outside the stated grammar / restriction): lists with an EmptyItem child; localized text that is not valid UTF-8 or holds a non-control code point Go's %%q escapes (NBSP, soft hyphen, U+2028, BOM, private use) — counted under outcome 'observed:*'. Second half: every token sequence of length <= %d over the 26-token C14 alphabet, bare and inside 4 seeding contexts (prefix 'S1F1 W <'; that prefix with suffix '>.'; 'S1F1 W <A ' ... '>.'; 'S1F1 <L <' ... '>>.') fed to ParseStrict; every accepted text with >= 1 message (its JIS-8/localized items inside the restriction) is re-encoded with all strict option combinations and re-parsed: equal message. non-trivial = first half: non-empty body; second half: accepted text with at least one message", len(opts), map[bool]int{false: 4, true: 5}[c.Thorough()], maxTok))
		c.Assume("accessor-level comparison (checks/c13 Same) is the notion of 'equal body'", "secs2 accessors return the stored values (C01)", "Go runtime")

		if c.Replay != nil {
			replay(c, opts, encs)
			return
		}

		// ---- first half, part 1: full body set, S1F1 W, all options
		s1f1w := Header{1, 1, true}
		reported := map[string]bool{}
		sampled := map[string]bool{}
		var nGT int64
		runBody := func(h Header, class string, body secs2.Item) bool {
			if !c.Next() {
				return true
			}
			if c.Expired() {
				return false
			}
			cls, emptyChild := bodyClass(body)
			observedOnly := cls != textOK || emptyChild
			nt := int64(0)
			if !body.IsEmpty() {
				nt = int64(len(encs))
			}
			c.Count(int64(len(encs)), nt)
			failed := false
			for i, enc := range encs {
				k, d := RoundTrip(enc, h, body)
				if k == "" && i == 0 {
					k, d = singleEntry(enc, h, body)
				}
				if k == "" {
					continue
				}
				failed = true
				if k == "harness" {
					c.HarnessError("%s", d())
					continue
				}
				if observedOnly {
					continue
				}
				if k == keyGT {
					nGT++
				}
				if !reported[k] { // vfw keeps one counterexample per key and shard
					reported[k] = true
					c.Violate(k, fmt.Sprintf("S%dF%d W=%v, options {%s}: %s", h.S, h.F, h.W, opts[i], d()),
						MsgCase{Kind: "msg", Body: SpecOf(body), Opts: opts[i], S: h.S, F: h.F, W: h.W, Desc: opts[i].String()})
				}
			}
			switch {
			case observedOnly && failed:
				c.Outcome("observed:" + class + ":differs")
			case observedOnly:
				c.Outcome("observed:" + class + ":ok")
			case failed:
				c.Outcome(class + ":FAIL")
			default:
				c.Outcome(class + ":ok")
				if !sampled[class] && c.WantSample() && class != "empty-body" && body.Size() > 0 {
					sampled[class] = true
					msg, _ := hsms.NewDataMessage(h.S, h.F, h.W, 0, [4]byte{}, body)
					txt, _ := encs[len(encs)-1].EncodeMessage(msg)
					c.Sample(map[string]any{"body": SpecOf(body), "opts": opts[len(opts)-1].String(), "sml": txt})
				}
			}
			return true
		}
		if !Bodies(c.Thorough(), func(class string, it secs2.Item) bool { return runBody(s1f1w, class, it) }) {
			return
		}
		// ---- first half, part 2: header product on the thinned body set
		for _, h := range Headers() {
			for _, b := range ThinBodies() {
				if !runBody(h, "hdr", b) {
					return
				}
			}
		}

		// ---- first half, part 3: EVERY legal header (all 128 streams x 256 functions, W on the odd
		// ones: the codes are rendered digit by digit) on the empty body and on one small body
		small := secs2.NewUintItem(1, 7)
		for st := 0; st < 128; st++ {
			for fn := 0; fn < 256; fn++ {
				for _, w := range []bool{false, true} {
					if w && fn%2 == 0 {
						continue
					}
					h := Header{uint8(st), uint8(fn), w}
					if !runBody(h, "hdr-all", secs2.NewEmptyItem()) || !runBody(h, "hdr-all", small) {
						return
					}
				}
			}
		}

		c.Add("ascii_gt_unescaped_cases", nGT)

		// ---- second half: token sequences
		var accepted, acceptedMsgs, outside, rts, total int64
		byLen := map[int]int64{}
		for ci, ctx := range Contexts {
			for n := 0; n <= maxTok; n++ {
				alive := allStrings(Tokens, n, func(seq string) bool {
					if !c.Next() {
						return true
					}
					total++
					if total&0xFFFF == 0 && c.Expired() {
						return false
					}
					text := ctx.Pre + seq + ctx.Suf
					r := CheckText(text, encs)
					nt := r.accepted && r.nmsg > 0
					c.Case(nt)
					if !r.accepted {
						return true
					}
					if r.nmsg == 0 {
						c.Add("text_accepted_no_message", 1)
						return true
					}
					accepted++
					byLen[n]++
					acceptedMsgs += int64(r.nmsg)
					outside += int64(r.outside)
					rts += int64(r.roundtrips)
					if r.key != "" {
						c.Outcome(fmt.Sprintf("text:ctx%d:FAIL", ci))
						c.Violate(r.key, r.msg, TextCase{Kind: "text", Text: text})
						if r.key == keyGT {
							c.Add("ascii_gt_unescaped_texts", 1)
						}
					} else if r.roundtrips == 0 {
						c.Outcome(fmt.Sprintf("text:ctx%d:accepted-outside-restriction", ci))
					} else {
						c.Outcome(fmt.Sprintf("text:ctx%d:accepted-roundtrip-ok", ci))
						if accepted%997 == 1 && c.WantSample() {
							c.Sample(map[string]any{"accepted_text": text, "messages": r.nmsg})
						}
					}
					return true
				})
				if !alive {
					return
				}
			}
		}
		c.Add("text_inputs", total)
		c.Add("text_accepted_with_message", accepted)
		c.Add("text_accepted_messages", acceptedMsgs)
		c.Add("text_messages_outside_restriction", outside)
		c.Add("text_reencode_roundtrips", rts)
		for n, v := range byLen {
			c.Add(fmt.Sprintf("text_accepted_seqlen_%d", n), v)
		}
	})
}

func replay(c *vfw.Ctx, opts []Opt, encs []*sml.Encoder) {
	c.Shards, c.Shard = 1, 0
	var kind struct {
		Kind string `json:"kind"`
	}
	if err := json.Unmarshal(c.Replay, &kind); err != nil {
		c.HarnessError("bad replay case: %v", err)
		return
	}
	switch kind.Kind {
	case "msg":
		var mc MsgCase
		if err := json.Unmarshal(c.Replay, &mc); err != nil || mc.Body == nil || !mc.Opts.valid() {
			c.HarnessError("bad msg replay case: %v", err)
			return
		}
		body, err := Build(mc.Body)
		if err != nil {
			c.HarnessError("bad body spec: %v", err)
			return
		}
		c.Case(true)
		k, d := RoundTrip(mc.Opts.Encoder(), Header{mc.S, mc.F, mc.W}, body)
		if k == "harness" {
			c.HarnessError("%s", d())
		} else if k != "" {
			c.Violate(k, fmt.Sprintf("S%dF%d W=%v, options {%s}: %s", mc.S, mc.F, mc.W, mc.Opts, d()), mc)
		}
	case "text":
		var tc TextCase
		if err := json.Unmarshal(c.Replay, &tc); err != nil {
			c.HarnessError("bad text replay case: %v", err)
			return
		}
		r := CheckText(tc.Text, encs)
		c.Case(r.accepted)
		if r.key != "" {
			c.Violate(r.key, r.msg, tc)
		}
	default:
		c.HarnessError("unknown replay kind %q", kind.Kind)
	}
}
