package c13

import (
	"encoding/hex"
	"encoding/json"
	"fmt"
	"math"
	"strconv"
	"unicode"
	"unicode/utf8"

	"github.com/arloliu/go-secs/v2/secs2"
	"github.com/arloliu/go-secs/v2/sml"
)

// HexBytes marshals as a hex string (ASCII/JIS-8/localized text and binary payloads may hold
// any byte value, so they are never written as JSON text).
type HexBytes []byte

func (h HexBytes) MarshalJSON() ([]byte, error) { return json.Marshal(hex.EncodeToString(h)) }
func (h *HexBytes) UnmarshalJSON(b []byte) error {
	var s string
	if err := json.Unmarshal(b, &s); err != nil {
		return err
	}
	v, err := hex.DecodeString(s)
	*h = v
	return err
}

// FBits marshals float64 values as their IEEE-754 bit patterns ("0x7ff8000000000001"), so that
// NaN, infinities and -0 survive JSON.
type FBits []float64

func (f FBits) MarshalJSON() ([]byte, error) {
	ss := make([]string, len(f))
	for i, x := range f {
		ss[i] = fmt.Sprintf("0x%016x", math.Float64bits(x))
	}
	return json.Marshal(ss)
}
func (f *FBits) UnmarshalJSON(b []byte) error {
	var ss []string
	if err := json.Unmarshal(b, &ss); err != nil {
		return err
	}
	out := make([]float64, len(ss))
	for i, s := range ss {
		u, err := strconv.ParseUint(s, 0, 64)
		if err != nil {
			return err
		}
		out[i] = math.Float64frombits(u)
	}
	*f = out
	return nil
}

// Spec is the self-describing (JSON) form of a message body.
// T: "E" empty item, "L", "A", "J", "W", "B", "BOOLEAN", "I1".."I8", "U1".."U8", "F4", "F8".
type Spec struct {
	T    string   `json:"t"`
	Hex  HexBytes `json:"hex,omitempty"` // A/J/W text bytes, B payload
	LSH  uint16   `json:"lsh,omitempty"` // W
	Bool []bool   `json:"bool,omitempty"`
	I    []int64  `json:"i,omitempty"`
	U    []uint64 `json:"u,omitempty"`
	F    FBits    `json:"fbits,omitempty"`
	Kids []*Spec  `json:"kids,omitempty"`
}

// Build constructs the item a Spec denotes through the public constructors.
func Build(s *Spec) (secs2.Item, error) {
	switch s.T {
	case "E":
		return secs2.NewEmptyItem(), nil
	case "L":
		kids := make([]secs2.Item, len(s.Kids))
		for i, k := range s.Kids {
			it, err := Build(k)
			if err != nil {
				return nil, err
			}
			kids[i] = it
		}
		return secs2.NewListItem(kids...), nil
	case "A":
		return secs2.NewASCIIItem(string(s.Hex)), nil
	case "J":
		return secs2.NewJIS8Item(string(s.Hex)), nil
	case "W":
		return secs2.NewLocalizedStrItem(s.LSH, string(s.Hex)), nil
	case "B":
		return secs2.NewBinaryItem(append([]byte{}, s.Hex...)), nil
	case "BOOLEAN":
		return secs2.NewBooleanItem(append([]bool{}, s.Bool...)), nil
	case "I1", "I2", "I4", "I8":
		return secs2.NewIntItem(int(s.T[1]-'0'), append([]int64{}, s.I...)), nil
	case "U1", "U2", "U4", "U8":
		return secs2.NewUintItem(int(s.T[1]-'0'), append([]uint64{}, s.U...)), nil
	case "F4", "F8":
		return secs2.NewFloatItem(int(s.T[1]-'0'), append([]float64{}, s.F...)), nil
	}
	return nil, fmt.Errorf("unknown spec type %q", s.T)
}

// SpecOf describes an item through its public accessors.
func SpecOf(it secs2.Item) *Spec {
	switch {
	case it == nil || it.IsEmpty():
		return &Spec{T: "E"}
	case it.IsList():
		kids, _ := it.ToList()
		s := &Spec{T: "L"}
		for _, k := range kids {
			s.Kids = append(s.Kids, SpecOf(k))
		}
		return s
	case it.IsASCII():
		v, _ := it.ToASCII()
		return &Spec{T: "A", Hex: []byte(v)}
	case it.IsJIS8():
		v, _ := it.ToJIS8()
		return &Spec{T: "J", Hex: []byte(v)}
	case it.IsLocalizedStr():
		v, _ := it.ToLocalizedStr()
		h, _ := it.ToLocalizedStrHeader()
		return &Spec{T: "W", Hex: []byte(v), LSH: h}
	case it.IsBinary():
		v, _ := it.ToBinary()
		return &Spec{T: "B", Hex: v}
	case it.IsBoolean():
		v, _ := it.ToBoolean()
		return &Spec{T: "BOOLEAN", Bool: v}
	case it.IsInt8(), it.IsInt16(), it.IsInt32(), it.IsInt64():
		v, _ := it.ToInt()
		return &Spec{T: "I" + widthOf(it), I: v}
	case it.IsUint8(), it.IsUint16(), it.IsUint32(), it.IsUint64():
		v, _ := it.ToUint()
		return &Spec{T: "U" + widthOf(it), U: v}
	case it.IsFloat32():
		v, _ := it.ToFloat()
		return &Spec{T: "F4", F: v}
	case it.IsFloat64():
		v, _ := it.ToFloat()
		return &Spec{T: "F8", F: v}
	}
	return &Spec{T: "?" + it.Type()}
}

func widthOf(it secs2.Item) string {
	switch {
	case it.IsInt8(), it.IsUint8():
		return "1"
	case it.IsInt16(), it.IsUint16():
		return "2"
	case it.IsInt32(), it.IsUint32():
		return "4"
	}
	return "8"
}

// Same compares two bodies the way the property states equality: same type and count, equal
// values; floats by bit pattern at the declared width except that any NaN equals any NaN; the
// localized-string header is ignored. It returns "" or a short description (path: what).
func Same(a, b secs2.Item) string { return same(a, b, "") }

func same(a, b secs2.Item, path string) string {
	if a == nil || b == nil {
		if a == nil && b == nil {
			return ""
		}
		return path + ": nil item"
	}
	if a.Error() != nil || b.Error() != nil {
		return fmt.Sprintf("%s: item error %v / %v", path, a.Error(), b.Error())
	}
	if a.Type() != b.Type() {
		return fmt.Sprintf("%s: type %s became %s", path, a.Type(), b.Type())
	}
	if a.Size() != b.Size() {
		return fmt.Sprintf("%s: %s size %d became %d", path, a.Type(), a.Size(), b.Size())
	}
	switch {
	case a.IsEmpty():
		return ""
	case a.IsList():
		x, _ := a.ToList()
		y, _ := b.ToList()
		if len(x) != len(y) {
			return fmt.Sprintf("%s: list of %d became list of %d", path, len(x), len(y))
		}
		for i := range x {
			if d := same(x[i], y[i], fmt.Sprintf("%s/%d", path, i)); d != "" {
				return d
			}
		}
	case a.IsASCII():
		x, _ := a.ToASCII()
		y, _ := b.ToASCII()
		if x != y {
			return fmt.Sprintf("%s: ascii %q became %q", path, x, y)
		}
	case a.IsJIS8():
		x, _ := a.ToJIS8()
		y, _ := b.ToJIS8()
		if x != y {
			return fmt.Sprintf("%s: jis8 %q became %q", path, x, y)
		}
	case a.IsLocalizedStr():
		x, _ := a.ToLocalizedStr()
		y, _ := b.ToLocalizedStr()
		if x != y {
			return fmt.Sprintf("%s: localized %q became %q", path, x, y)
		}
	case a.IsBinary():
		x, _ := a.ToBinary()
		y, _ := b.ToBinary()
		if string(x) != string(y) {
			return fmt.Sprintf("%s: binary % x became % x", path, x, y)
		}
	case a.IsBoolean():
		x, _ := a.ToBoolean()
		y, _ := b.ToBoolean()
		for i := range x {
			if i >= len(y) || x[i] != y[i] {
				return fmt.Sprintf("%s: boolean %v became %v", path, x, y)
			}
		}
	case a.IsInt8(), a.IsInt16(), a.IsInt32(), a.IsInt64():
		x, _ := a.ToInt()
		y, _ := b.ToInt()
		for i := range x {
			if i >= len(y) || x[i] != y[i] {
				return fmt.Sprintf("%s: %s %v became %v", path, a.Type(), x, y)
			}
		}
	case a.IsUint8(), a.IsUint16(), a.IsUint32(), a.IsUint64():
		x, _ := a.ToUint()
		y, _ := b.ToUint()
		for i := range x {
			if i >= len(y) || x[i] != y[i] {
				return fmt.Sprintf("%s: %s %v became %v", path, a.Type(), x, y)
			}
		}
	case a.IsFloat32(), a.IsFloat64():
		x, _ := a.ToFloat()
		y, _ := b.ToFloat()
		for i := range x {
			if i >= len(y) {
				return fmt.Sprintf("%s: %s length changed", path, a.Type())
			}
			if math.IsNaN(x[i]) && math.IsNaN(y[i]) {
				continue
			}
			ok := math.Float64bits(x[i]) == math.Float64bits(y[i])
			if a.IsFloat32() {
				ok = math.Float32bits(float32(x[i])) == math.Float32bits(float32(y[i]))
			}
			if !ok {
				return fmt.Sprintf("%s: %s element %d: %s (bits %#x) became %s (bits %#x)", path, a.Type(), i,
					strconv.FormatFloat(x[i], 'g', -1, 64), math.Float64bits(x[i]), strconv.FormatFloat(y[i], 'g', -1, 64), math.Float64bits(y[i]))
			}
		}
	default:
		return fmt.Sprintf("%s: unknown item type %s", path, a.Type())
	}
	return ""
}

// text restriction -----------------------------------------------------------------------------

const (
	textOK      = 0 // the property promises the round trip
	textOutside = 1 // contains a quote, backslash, angle bracket or control character: not promised
	textGray    = 2 // localized only: not valid UTF-8, or a non-control code point that Go's %q escapes
)

func restrictedByte(c byte) bool {
	return c < 0x20 || c == 0x7F || c == '"' || c == '\'' || c == '\\' || c == '<' || c == '>'
}

// jis8Class: JIS-8 text is a byte string; bytes 0x80..0xFF are characters of the 8-bit code.
func jis8Class(s string) int {
	for i := 0; i < len(s); i++ {
		if restrictedByte(s[i]) {
			return textOutside
		}
	}
	return textOK
}

// localClass: localized text is compared as UTF-8 text (the parser only produces UTF-8 items
// and the encoder documents Go %q quoting).
func localClass(s string) int {
	cls := textOK
	for i := 0; i < len(s); {
		r, n := utf8.DecodeRuneInString(s[i:])
		switch {
		case r == utf8.RuneError && n == 1:
			cls = max(cls, textGray)
		case r < 0x80 && restrictedByte(byte(r)):
			return textOutside
		case unicode.IsControl(r):
			return textOutside
		case !strconv.IsPrint(r):
			cls = max(cls, textGray)
		}
		i += n
	}
	return cls
}

// bodyClass folds the text restriction over a body; hasEmptyChild reports an EmptyItem inside a list.
func bodyClass(it secs2.Item) (cls int, emptyChild bool) {
	switch {
	case it == nil || it.IsEmpty():
		return textOK, false
	case it.IsList():
		kids, _ := it.ToList()
		for _, k := range kids {
			if k.IsEmpty() {
				emptyChild = true
				continue
			}
			c, e := bodyClass(k)
			cls = max(cls, c)
			emptyChild = emptyChild || e
		}
		return cls, emptyChild
	case it.IsJIS8():
		s, _ := it.ToJIS8()
		return jis8Class(s), false
	case it.IsLocalizedStr():
		s, _ := it.ToLocalizedStr()
		return localClass(s), false
	}
	return textOK, false
}

// asciiHasGT reports whether some ASCII item in the body contains '>'.
func asciiHasGT(it secs2.Item) bool {
	switch {
	case it == nil || it.IsEmpty():
		return false
	case it.IsList():
		kids, _ := it.ToList()
		for _, k := range kids {
			if asciiHasGT(k) {
				return true
			}
		}
	case it.IsASCII():
		s, _ := it.ToASCII()
		for i := 0; i < len(s); i++ {
			if s[i] == '>' {
				return true
			}
		}
	}
	return false
}

// encoder options --------------------------------------------------------------------------------

var (
	asciiQuotes = []sml.QuoteStyle{sml.QuoteDouble, sml.QuoteSingle, sml.QuoteNone} // None is documented to mean Double for string data
	sfQuotes    = []sml.QuoteStyle{sml.QuoteNone, sml.QuoteDouble, sml.QuoteSingle}
	indents     = []string{"  ", "", "\t"}
	binStyles   = []sml.BinaryStyle{sml.BinaryHex, sml.BinaryLiteral}
)

// Opt indexes the four option tables: [asciiQuote, sfQuote, indent, binaryStyle].
type Opt [4]int

func (o Opt) valid() bool {
	return o[0] >= 0 && o[0] < len(asciiQuotes) && o[1] >= 0 && o[1] < len(sfQuotes) && o[2] >= 0 && o[2] < len(indents) && o[3] >= 0 && o[3] < len(binStyles)
}

func (o Opt) String() string {
	qn := map[sml.QuoteStyle]string{sml.QuoteDouble: "double", sml.QuoteSingle: "single", sml.QuoteNone: "none"}
	bn := map[sml.BinaryStyle]string{sml.BinaryHex: "hex", sml.BinaryLiteral: "literal"}
	return fmt.Sprintf("strict asciiQuote=%s sfQuote=%s indent=%q binary=%s", qn[asciiQuotes[o[0]]], qn[sfQuotes[o[1]]], indents[o[2]], bn[binStyles[o[3]]])
}

func (o Opt) Encoder() *sml.Encoder {
	return sml.NewEncoder(sml.WithEncoderStrictMode(true), sml.WithASCIIQuote(asciiQuotes[o[0]]), sml.WithSFQuote(sfQuotes[o[1]]),
		sml.WithIndent(indents[o[2]]), sml.WithBinaryStyle(binStyles[o[3]]))
}

// AllOpts is the full product, default combination first.
func AllOpts() []Opt {
	var r []Opt
	for a := range asciiQuotes {
		for s := range sfQuotes {
			for i := range indents {
				for b := range binStyles {
					r = append(r, Opt{a, s, i, b})
				}
			}
		}
	}
	return r
}
