// C20, part E3 — the in-flight gauge under overlapping completions: two reply-expected
// senders whose transactions complete (reply / T3 / ctx cancel) at the same time, all
// schedules up to the departure bound; the gauge is never negative at any scheduling
// point and is zero once every call has returned; the counters match the wire.
package c20s

import (
	"context"
	"encoding/json"
	"errors"
	"io"
	"testing"
	"time"

	"github.com/arloliu/go-secs/v2/hsms"
	"github.com/arloliu/go-secs/v2/secs2"
	"github.com/arloliu/go-secs/v2/zverif/vsched"

	"verif/e2"
	"verif/e3"
	"verif/peer"
	"verif/sim"
	"verif/vfw"
)

func readData(pc *sim.Conn) (peer.Frame, bool) {
	var p peer.Parser
	var b [1]byte
	for {
		if _, err := io.ReadFull(pc, b[:]); err != nil {
			return peer.Frame{}, false
		}
		if fs := p.Feed(b[:]); len(fs) > 0 && fs[0].SType == peer.SData {
			return fs[0], true
		}
	}
}

func scenarios() []e3.Scenario {
	var out []e3.Scenario
	for _, kind := range []string{"both-replied", "one-replied-one-cancelled", "reply-vs-t3"} {
		kind := kind
		var errs [2]error
		var minGauge int64
		var wireData int
		out = append(out, e3.Scenario{
			Name: "two-senders-" + kind, Horizon: 20 * time.Second,
			Setup: func(e *e3.Env) {
				errs = [2]error{}
				minGauge, wireData = 0, 0
				o := e2.Opts{Active: false, Conn: []hsms.ConnOption{
					hsms.WithT3(3 * time.Second), hsms.WithT5(time.Second), hsms.WithT6(2 * time.Second), hsms.WithT7(4 * time.Second), hsms.WithT8(time.Second),
					hsms.WithWriteTimeout(time.Second), hsms.WithCloseTimeout(5 * time.Second),
				}}
				e.W.NewConn(o)
				if err := e.W.Establish(o); err != nil {
					panic(err)
				}
				pc := e.W.Peer
				for i := 0; i < 2; i++ {
					i := i
					e.Thread([]string{"senderA", "senderB"}[i], func() {
						ctx, cancel := context.WithCancel(context.Background())
						if kind == "one-replied-one-cancelled" && i == 1 {
							tm := time.AfterFunc(500*time.Millisecond, cancel)
							defer tm.Stop()
						}
						defer cancel()
						_, errs[i] = e.W.C.SendDataMessage(ctx, 1, byte(2*i+1), true, secs2.A("x"))
					})
				}
				e.Thread("peer", func() {
					var fs []peer.Frame
					for len(fs) < 2 {
						f, ok := readData(pc)
						if !ok {
							return
						}
						fs = append(fs, f)
					}
					wireData = len(fs)
					var buf []byte
					for j, f := range fs {
						if kind == "one-replied-one-cancelled" && f.B3 == 3 {
							continue // sender B is never answered: its ctx is cancelled by a timer
						}
						_ = j
						buf = append(buf, peer.Data(f.Session, 1, f.B3+1, false, f.Sys, []byte{0x41, 1, 'r'}).Bytes()...)
					}
					if kind == "reply-vs-t3" {
						vsched.Tick() // T3 of both transactions may land before the replies
					}
					if kind == "one-replied-one-cancelled" {
						vsched.Tick() // the cancel timer may land before / after the reply
					}
					_, _ = pc.Write(buf) // both replies in one segment: the completions overlap
				})
			},
			Monitor: func(e *e3.Env) {
				if g := e.W.C.Metrics().DataMsgInflightCount(); g < minGauge {
					minGauge = g
				}
			},
			Finish: func(e *e3.Env) {
				e.W.Advance(4 * time.Second) // past T3: every call has returned by now
				m := e.W.C.Metrics()
				e.Note("errs=%v,%v", errs[0] != nil, errs[1] != nil)
				if minGauge < 0 {
					e.Violate("inflight:negative", "the in-flight gauge was %d at a scheduling point", minGauge)
				}
				if g := m.DataMsgInflightCount(); g != 0 {
					e.Violate("inflight:stuck", "every send has returned but the in-flight gauge is %d", g)
				}
				// each outcome changes exactly its documented counters: a T3 timeout counts one local
				// send error, a reply or a cancelled wait none — also when the reply and the timer tie
				t3, other := uint64(0), 0
				for _, er := range errs {
					switch {
					case er == nil, errors.Is(er, context.Canceled):
					case errors.Is(er, hsms.ErrT3Timeout):
						t3++
					default:
						other++
					}
				}
				if got := m.DataMsgErrCount(); other == 0 && got != t3 {
					e.Violate("err-vs-outcome", "the two sends returned %v / %v (%d T3 timeouts, no write error) but DataMsgErrCount is %d", errs[0], errs[1], t3, got)
				}
				if wireData == 2 {
					if s := m.DataMsgSendCount(); s != 2 {
						e.Violate("send-vs-wire", "the peer received 2 data frames but DataMsgSendCount is %d", s)
					}
				}
			},
		})
	}
	// A reply-expected send racing the peer's Deselect.req: whichever side of the write boundary
	// the send falls on — written and waiting, or refused as not selected — the gauge is 0 again
	// once every call has returned, and the refusal is exactly one drop.
	{
		var sendErr error
		var minGauge int64
		var sawData bool
		out = append(out, e3.Scenario{
			Name: "send-w-vs-deselect", Horizon: 20 * time.Second,
			Setup: func(e *e3.Env) {
				sendErr, minGauge, sawData = nil, 0, false
				o := e2.Opts{Active: false, Conn: []hsms.ConnOption{
					hsms.WithT3(3 * time.Second), hsms.WithT5(time.Second), hsms.WithT6(2 * time.Second), hsms.WithT7(30 * time.Second), hsms.WithT8(time.Second),
					hsms.WithWriteTimeout(time.Second), hsms.WithCloseTimeout(5 * time.Second),
				}}
				e.W.NewConn(o)
				if err := e.W.Establish(o); err != nil {
					panic(err)
				}
				pc := e.W.Peer
				// the sender is first in the canonical order: one departure anywhere between its pre-write
				// gate and the write boundary lets the Deselect.req land in between
				e.Thread("1sender", func() {
					_, sendErr = e.W.C.SendDataMessage(context.Background(), 1, 1, true, secs2.A("x"))
				})
				e.Thread("2peer", func() {
					_, _ = pc.Write(peer.Ctrl(peer.SDeselectReq, 0xFFFF, 0, 0, 0x0D5E).Bytes())
					_ = pc.SetReadDeadline(time.Now().Add(10 * time.Second))
					if f, ok := readData(pc); ok { // the primary, if it was written: answer it
						sawData = true
						_, _ = pc.Write(peer.Data(f.Session, 1, 2, false, f.Sys, []byte{0x41, 1, 'r'}).Bytes())
					}
				})
			},
			Monitor: func(e *e3.Env) {
				if g := e.W.C.Metrics().DataMsgInflightCount(); g < minGauge {
					minGauge = g
				}
			},
			Finish: func(e *e3.Env) {
				e.W.Advance(4 * time.Second) // past T3: the call has returned by now
				m := e.W.C.Metrics()
				e.Note("err=%v data-on-wire=%v", sendErr, sawData)
				if minGauge < 0 {
					e.Violate("inflight:negative", "the in-flight gauge was %d at a scheduling point", minGauge)
				}
				if g := m.DataMsgInflightCount(); g != 0 {
					e.Violate("inflight:stuck", "the send has returned (%v, primary on the wire: %v) but the in-flight gauge is %d", sendErr, sawData, g)
				}
				if errors.Is(sendErr, hsms.ErrNotSelectedState) && !sawData {
					if d := m.DataMsgDropNotSelectedCount(); d != 1 {
						e.Violate("drop-count", "the send was refused as not selected and nothing reached the wire, but the drop counter is %d", d)
					}
					if sc := m.DataMsgSendCount(); sc != 0 {
						e.Violate("send-vs-wire", "the send was refused and nothing reached the wire but DataMsgSendCount is %d", sc)
					}
				}
			},
		})
	}
	// The reconnecting gauge under overlapping reconnect loops: the link of a Selected active
	// connection is dropped, the re-dial is accepted and that link is dropped at once (the next
	// loop can start before the previous one has returned from Start), every later dial is
	// refused. At the end the connection is open and NotConnected with a loop sleeping in its
	// backoff: Reconnecting() must be positive; it is never negative at any scheduling point.
	{
		var minG int64
		out = append(out, e3.Scenario{
			Name: "active-redial-dropped-at-once", Horizon: 3 * time.Second,
			Setup: func(e *e3.Env) {
				minG = 0
				o := e2.Opts{Active: true, Conn: []hsms.ConnOption{
					hsms.WithT3(3 * time.Second), hsms.WithT5(4 * time.Second), hsms.WithT6(2 * time.Second), hsms.WithT7(4 * time.Second), hsms.WithT8(time.Second),
					hsms.WithReconnectBackoff(100*time.Millisecond, 4.0), hsms.WithWriteTimeout(time.Second), hsms.WithCloseTimeout(5 * time.Second),
				}}
				e.W.NewConn(o)
				if err := e.W.Establish(o); err != nil {
					panic(err)
				}
				e.W.Net.Plan = func(attempt int) sim.DialAnswer {
					if attempt <= 1 {
						return sim.Accept // 0: the initial dial, 1: the first re-dial
					}
					return sim.Refuse
				}
				pc := e.W.Peer
				e.Thread("peer", func() {
					_ = pc.Close()
					if p2 := e.W.Net.WaitPeer(2 * time.Second); p2 != nil {
						_ = p2.Close() // the re-established link is lost at once
					}
				})
			},
			Monitor: func(e *e3.Env) {
				if g := e.W.C.Metrics().Reconnecting(); g < minG {
					minG = g
				}
			},
			Finish: func(e *e3.Env) {
				m := e.W.C.Metrics()
				e.Note("state=%v reconnecting=%d reconnects=%d dials=%d", e.W.C.State(), m.Reconnecting(), m.Reconnects(), e.W.Net.DialCount())
				if minG < 0 {
					e.Violate("reconnecting:negative", "the reconnecting gauge was %d at a scheduling point", minG)
				}
				if st := e.W.C.State(); st == hsms.NotConnectedState && m.Reconnecting() <= 0 {
					e.Violate("reconnecting:zero-while-loop-runs", "the connection is open and NotConnected (dials so far: %d, every further one refused) with a reconnect loop in its backoff, but Reconnecting() is %d", e.W.Net.DialCount(), m.Reconnecting())
				}
			},
		})
	}
	return out
}

func TestCheck(t *testing.T) {
	vfw.Main(t, "C20", func(c *vfw.Ctx) {
		c.Level("model_checking")
		c.Rule("E3: every schedule with <= B departures (quick 1, thorough 2) of two overlapping reply-expected senders whose transactions complete together (both replied in one segment / one replied, one cancelled by a timer / replies racing T3) on the real instrumented connection; oracle: in-flight gauge >= 0 at every scheduling point, 0 after every call returned, data-sent counter equals the frames the peer read, DataMsgErrCount equals the number of sends that returned the T3 error (a reply winning or losing the tie with T3 is counted as what the call returned); and of {one reply-expected send, peer Deselect.req}: whichever side of the write boundary the send falls on, the gauge is 0 once it has returned and a refusal is exactly one drop")
		if c.Replay != nil {
			var r e3.Replay
			if err := json.Unmarshal(c.Replay, &r); err != nil || r.Scenario == "" {
				return
			}
			for _, sc := range scenarios() {
				if sc.Name == r.Scenario {
					res := e3.RunOnce(t, sc, r.Choices, nil, r.Demote)
					c.Case(true)
					for _, v := range res.Viols {
						c.Violate(sc.Name+":"+v.Key, v.Desc, r)
					}
				}
			}
			return
		}
		bound := 1
		if c.Thorough() {
			bound = 2
		}
		for _, sc := range scenarios() {
			st := e3.Explore(c, t, sc, bound)
			c.Add("e3_executions", int64(st.Execs))
		}
	})
}
