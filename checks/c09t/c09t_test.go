// C09, SECS-I part — nothing crosses TCP connection generations on a real secs1 connection.
//
// Engine E2 (synctest bubble, sim network, E4 peer). Generation 1 is brought into every
// state of a small alphabet in which messages are accepted but not finished (waiting for a
// reply, bidding for the line, queued behind a stuck bid, between the blocks of a
// multi-block message), the peer cuts the link, the library reconnects, and generation 2 is
// watched: no byte of a generation-1 message may appear on it, every generation-1 call has
// returned promptly with a definite error, and a fresh message still goes through.
package c09t

import (
	"bytes"
	"context"
	"encoding/json"
	"errors"
	"fmt"
	"net"
	"strings"
	"sync"
	"testing"
	"time"

	"github.com/arloliu/go-secs/v2/hsms"
	"github.com/arloliu/go-secs/v2/secs1"
	"github.com/arloliu/go-secs/v2/secs2"

	"verif/e2"
	"verif/e2s1"
	"verif/peer"
	"verif/ref/e4"
	"verif/sim"
	"verif/vfw"
)

const (
	cT3          = 30 * time.Second
	cT5          = 2 * time.Second
	t1           = 100 * time.Millisecond
	t2           = 300 * time.Millisecond
	t4           = 2 * time.Second
	retry        = 1
	device       = 9
	closeTimeout = 5 * time.Second
	prompt       = closeTimeout + t2*(retry+1) + t1 // "promptly": far below T3 = 30 s
	gap          = 50 * time.Millisecond
	slowFor      = 4 * time.Second // how long the slow handler of state close-slow-handler takes (< close timeout)
)

var states = []string{
	"waiting-reply", // W primary transmitted and acknowledged, reply outstanding
	"bidding",       // one send: ENQ on the wire, never answered
	"queued-sync",   // first send bidding, a second synchronous send queued behind it
	"queued-async",  // first send bidding, two fire-and-forget async sends queued behind it
	"multi-block",   // 2-block message: block 1 acknowledged, block 2 not yet granted
	"mixed",         // one reply outstanding AND a later send bidding
	"recv-busy",     // the peer is in the middle of transmitting a block; a sync and an async send were started meanwhile
	"inbound-half",  // the peer has transmitted (and got acknowledged) block 1 of a 2-block message; it sends block 2 on the NEXT link
	// host role only: the library's ENQ meets the equipment's ENQ, the host yields, the block it then
	// receives reaches a slow handler (inline on the line engine, in the middle of the unfinished
	// send); a second send queues up; the generation is ended by Close() — not by the peer
	"close-slow-handler",
}

type caseSpec struct {
	Active bool   `json:"active"`
	Equip  bool   `json:"equip"`
	State  string `json:"state"`
	Fault  string `json:"fault"` // close | reset
}

type call struct {
	kind  string
	token string
	h     *e2.Call
	reply *hsms.DataMessage
	err   error
}

type exec struct {
	w  *e2.World
	n  *e2s1.Node
	cs caseSpec

	mu         sync.Mutex
	acceptedCh chan struct{}
	listenedCh chan struct{}
	p          *sim.Conn
	ep         *peer.E4
	conns      []*sim.Conn // harness ends, one per generation
	calls      []*call
	peerSys    uint32
}

func (x *exec) dial(ctx context.Context, network, address string) (net.Conn, error) {
	c, err := x.w.Net.Dial(ctx, network, address)
	if err != nil {
		return nil, err
	}
	p := x.w.Net.TakePeer()
	x.mu.Lock()
	x.p, x.ep = p, peer.NewE4(p, x.w.Settle)
	x.conns = append(x.conns, p)
	x.mu.Unlock()
	x.w.Peer = p
	select {
	case x.acceptedCh <- struct{}{}:
	default:
	}
	return c, nil
}

func (x *exec) listen(ctx context.Context, network, address string) (net.Listener, error) {
	l, err := x.w.Net.Listen(ctx, network, address)
	if err == nil {
		select {
		case x.listenedCh <- struct{}{}:
		default:
		}
	}
	return l, err
}

func waitCh(ch <-chan struct{}, d time.Duration) bool {
	tm := time.NewTimer(d)
	defer tm.Stop()
	select {
	case <-ch:
		return true
	case <-tm.C:
		return false
	}
}

func (x *exec) connectPeer() bool {
	if x.cs.Active {
		return x.p != nil
	}
	p := x.w.Net.Connect()
	if p == nil {
		return false
	}
	x.p, x.ep = p, peer.NewE4(p, x.w.Settle)
	x.conns = append(x.conns, p)
	x.w.Peer = p
	x.w.Settle()
	return true
}

func (x *exec) send(kind, token string, w bool, body secs2.Item) *call {
	c := &call{kind: kind, token: token}
	switch kind {
	case "async":
		c.h = x.w.Go(func() { c.err = x.n.C.SendDataMessageAsync(context.Background(), 1, 3, false, body) })
	default:
		c.h = x.w.Go(func() { c.reply, c.err = x.n.C.SendDataMessage(context.Background(), 1, 3, w, body) })
	}
	x.calls = append(x.calls, c)
	x.w.Advance(10 * time.Millisecond)
	return c
}

// grantOne lets the library transmit one block and acknowledges it.
func (x *exec) grantOne() (e4.Block, string) {
	if !x.ep.BidPending() {
		return e4.Block{}, fmt.Sprintf("no ENQ on the wire (line: %x)", x.ep.Pending())
	}
	blk, _, err := x.ep.RecvBlock(e4.ACK)
	if err != nil {
		return blk, err.Error()
	}
	x.w.Settle()
	return blk, ""
}

type result struct {
	fail    *struct{ key, desc string }
	harness string
	outcome string
}

func run(t *testing.T, cs caseSpec, onLeak func(string)) (res result) {
	bad := func(key, f string, a ...any) {
		if res.fail == nil {
			res.fail = &struct{ key, desc string }{key, fmt.Sprintf("%+v: ", cs) + fmt.Sprintf(f, a...)}
		}
	}
	var inboundTail []byte
	e2.Run(t, func(w *e2.World) {
		w.OnLeak = onLeak
		x := &exec{w: w, cs: cs, acceptedCh: make(chan struct{}, 4), listenedCh: make(chan struct{}, 4), peerSys: 0x60000000}
		caseT4 := time.Duration(t4)
		if cs.State == "inbound-half" {
			caseT4 = 45 * time.Second // the default: block 2 follows well inside T4 — it is the connection, not the timer, that ends block 1
		}
		slowHandler := func(m *hsms.DataMessage, _ hsms.SECS2Endpoint) {
			if cs.State == "close-slow-handler" && m.Stream() == 5 {
				time.Sleep(slowFor) // a slow (not a blocked) handler: it returns
			}
		}
		x.n = e2s1.New(w, e2s1.Opts{Active: cs.Active, Equip: cs.Equip, Device: device, Retry: retry, T1: t1, T2: t2, T4: caseT4, OnData: slowHandler,
			Conn:  []hsms.ConnOption{hsms.WithT3(cT3), hsms.WithT5(cT5), hsms.WithReconnectBackoff(100*time.Millisecond, 2), hsms.WithCloseTimeout(closeTimeout)},
			Extra: []secs1.Option{secs1.WithDialer(x.dial), secs1.WithListener(x.listen)}})
		defer func() {
			_ = x.n.Close()
			for _, p := range x.conns {
				_ = p.Close()
			}
			w.Advance(time.Second)
			if s := e2s1.Finish(w); s != "" && res.harness == "" {
				bad("goroutine-leak", "library goroutines alive after Close:\n%s", s[:min(len(s), 1500)])
			}
		}()
		if err := x.n.Open(); err != nil {
			res.harness = "open: " + err.Error()
			return
		}
		ch := x.listenedCh
		if cs.Active {
			ch = x.acceptedCh
		}
		if !waitCh(ch, time.Second) || !x.connectPeer() {
			res.harness = "generation 1 did not come up"
			return
		}
		w.Advance(gap)
		if st := x.n.C.State(); st != hsms.SelectedState {
			res.harness = fmt.Sprintf("state after TCP-up is %v", st)
			return
		}
		// ---- generation 1: accept messages, finish none ----
		long := strings.Repeat("g1-m ", 80) // 400 bytes: two blocks, the token in both
		var replySys [4]byte
		step := ""
		if cs.State == "close-slow-handler" {
			x.send("sync", "g1-c", false, secs2.A("g1-c"))
			if !x.ep.BidPending() {
				res.harness = "generation 1 setup: no ENQ on the wire"
				return
			}
			x.ep.Take(1)
			x.ep.Write(e4.ENQ) // the equipment contends instead of granting the line
			if err := x.ep.Expect(e4.EOT); err != nil {
				res.harness = "generation 1 setup: the host did not yield to the contending equipment: " + err.Error()
				return
			}
			blk := e4.Split(e4.Header{Device: device, R: true, Stream: 5, Function: 1, System: [4]byte{0x60, 0, 0, 2}}, []byte{0x41, 0x02, 'a', 'l'})[0]
			x.ep.Write(blk.Marshal()...) // completes an inbound message: the slow handler runs now
			x.send("sync", "g1-q", false, secs2.A("g1-q"))
			tClose := w.Now()
			cl := w.Go(func() { _ = x.n.C.Close() })
			w.Advance(time.Second) // far below the handler's 4 s and T3 = 30 s
			for _, c := range x.calls {
				if !c.h.Done() {
					bad("stale-waiter:"+c.kind, "send %s of the closing generation has not returned %v after Close() was called (the line engine is busy in a data handler that takes %v; T3=%v)", c.token, w.Now()-tClose, slowFor, cT3)
					return
				}
				if c.err == nil {
					bad("stale-success:"+c.kind, "send %s returned success although its block was never granted the line", c.token)
					return
				}
			}
			w.Advance(slowFor + closeTimeout)
			if !cl.Done() {
				bad("close-blocked", "Close() has not returned %v after it was called although the handler returned after %v", w.Now()-tClose, slowFor)
				return
			}
			res.outcome = fmt.Sprintf("%s:%s:sends-released-by-close", map[bool]string{true: "active", false: "passive"}[cs.Active], cs.State)
			return
		}
		switch cs.State {
		case "waiting-reply", "mixed":
			x.send("sync-W", "g1-w", true, secs2.A("g1-w"))
			blk, s := x.grantOne()
			step, replySys = s, blk.System
			if step == "" && cs.State == "mixed" {
				w.Advance(gap)
				x.send("sync", "g1-b", false, secs2.A("g1-b"))
				if !x.ep.BidPending() {
					step = "the second send does not bid"
				}
			}
		case "bidding":
			x.send("sync", "g1-b", false, secs2.A("g1-b"))
			if !x.ep.BidPending() {
				step = "no ENQ on the wire"
			}
		case "queued-sync":
			x.send("sync", "g1-b", false, secs2.A("g1-b"))
			x.send("sync", "g1-q", false, secs2.A("g1-q"))
			if !x.ep.BidPending() {
				step = "no ENQ on the wire"
			}
		case "queued-async":
			x.send("sync", "g1-b", false, secs2.A("g1-b"))
			x.send("async", "g1-a1", false, secs2.A("g1-a1"))
			x.send("async", "g1-a2", false, secs2.A("g1-a2"))
			if !x.ep.BidPending() {
				step = "no ENQ on the wire"
			}
		case "recv-busy":
			// the peer holds the line (ENQ/EOT, half a block sent): a send started now is handed to a
			// line engine that is busy receiving
			if err := x.ep.Bid(); err != nil {
				step = err.Error()
				break
			}
			x.peerSys++
			pb := e4.Split(e4.Header{Device: device, R: !cs.Equip, Stream: 1, Function: 1, System: [4]byte{0x60, 0, 0, 1}}, []byte{0x41, 0x02, 'o', 'k'})[0].Marshal()
			x.ep.Write(pb[:6]...)
			x.send("sync", "g1-r", false, secs2.A("g1-r"))
			x.send("async", "g1-ra", false, secs2.A("g1-ra"))
		case "inbound-half":
			hb := e4.Split(e4.Header{Device: device, R: !cs.Equip, Stream: 6, Function: 11, System: [4]byte{0x61, 0, 0, 7}}, append([]byte{0x22, 0x01, 0x2C}, make([]byte, 300)...))
			if ans, ok, err := x.ep.SendBlock(hb[0].Marshal()); err != nil || !ok || ans != e4.ACK {
				step = fmt.Sprintf("block 1 of the inbound message: answer %x present=%v err=%v", ans, ok, err)
			}
			inboundTail = hb[1].Marshal()
		case "multi-block":
			x.send("sync", "g1-m", false, secs2.A(long))
			blk, s := x.grantOne()
			step = s
			if step == "" && blk.E {
				step = "the 400-byte message went out as a single block"
			}
		default:
			res.harness = "unknown state " + cs.State
			return
		}
		if step != "" {
			res.harness = "generation 1 setup: " + step
			return
		}
		w.Advance(gap)
		// ---- the cut ----
		gen1 := x.p
		if cs.Fault == "reset" {
			gen1.Reset()
		} else {
			_ = gen1.Close()
		}
		tEnd := w.Now()
		if cs.Active {
			x.mu.Lock()
			x.p = nil
			x.mu.Unlock()
		}
		// ---- reconnect ----
		if !waitCh(ch, 3*cT5+5*time.Second) {
			bad("no-recovery", "no new generation within %v after the cut", 3*cT5+5*time.Second)
			return
		}
		w.Settle()
		if !cs.Active {
			w.Advance(gap)
		}
		if !x.connectPeer() {
			bad("no-recovery", "generation 2 is not reachable")
			return
		}
		gen2 := x.p
		tUp := w.Now()
		// ---- every generation-1 call completes promptly with a definite error ----
		if d := tEnd + prompt - w.Now(); d > 0 {
			w.Advance(d)
		}
		for _, c := range x.calls {
			if !c.h.Done() {
				bad("stale-waiter:"+c.kind, "send %s (%s) of generation 1 has not returned %v after the generation ended (T3=%v)", c.token, c.kind, w.Now()-tEnd, cT3)
				return
			}
			if c.kind == "async" {
				continue // accepted into the queue: nil is fine, the message must simply never go out
			}
			if c.err == nil {
				bad("stale-success:"+c.kind, "send %s (%s) of generation 1 returned success (reply %v) although the peer never finished the exchange", c.token, c.kind, c.reply)
				return
			}
			ok := errors.Is(c.err, hsms.ErrConnClosed) || errors.Is(c.err, hsms.ErrNotSelectedState) || errors.Is(c.err, context.Canceled) || errors.Is(c.err, context.DeadlineExceeded)
			if !ok && !strings.Contains(c.err.Error(), "secs1") {
				bad("waiter-error:"+c.kind, "send %s (%s) returned %v (want the connection-closed error, a SECS-I line error or its own ctx error)", c.token, c.kind, c.err)
				return
			}
		}
		// ---- generation 2 stays free of generation-1 traffic ----
		watch := func(d time.Duration, where string) bool {
			w.Advance(d)
			var all []byte
			for _, chk := range gen2.Received() {
				all = append(all, chk.Data...)
			}
			if i := bytes.Index(all, []byte("g1-")); i >= 0 {
				bad("stale-frame", "%s: generation 2's socket carried bytes of a message accepted for sending in generation 1 (\"%s\" at offset %d of %x)", where, all[i:min(i+5, len(all))], i, all[:min(len(all), 64)])
				return false
			}
			return true
		}
		if !watch(2*time.Second, "idle for 2 s after the reconnect") {
			return
		}
		// whatever the library offers on its own (S9 notices of the equipment role) is received and acknowledged
		for k := 0; k < 4 && x.ep.BidPending(); k++ {
			if _, _, err := x.ep.RecvBlock(e4.ACK); err != nil {
				break
			}
			w.Advance(gap)
		}
		if cs.State == "waiting-reply" || cs.State == "mixed" {
			// the peer answers the generation-1 primary on generation 2: a stale reply; it may be
			// delivered as an unsolicited message or dropped, and it must not disturb the line
			x.peerSys++
			h := e4.Header{Device: device, R: !cs.Equip, Stream: 1, Function: 4, System: replySys}
			blk := e4.Split(h, []byte{0x41, 0x02, 'r', 'p'})[0]
			if _, _, err := x.ep.SendBlock(blk.Marshal()); err != nil {
				bad("line-after-reconnect", "the peer cannot transmit on generation 2: %v", err)
				return
			}
			w.Advance(gap)
			x.ep.Take(-1)
			for k := 0; k < 4 && x.ep.BidPending(); k++ {
				if _, _, err := x.ep.RecvBlock(e4.ACK); err != nil {
					break
				}
				w.Advance(gap)
			}
		}
		if cs.State == "inbound-half" {
			// the peer carries on where it was: block 2 (E-bit) of the message whose block 1 went over
			// generation 1. Whatever the library answers, the two halves are not one message: block 1
			// died with its connection, and nothing may be delivered
			before := x.n.NDelivered()
			_, got, err := x.ep.SendBlock(inboundTail)
			if err != nil {
				bad("line-after-reconnect", "the peer cannot transmit on generation 2: %v", err)
				return
			}
			if !got {
				w.Advance(gap)
				x.ep.Answer() // ACK or NAK: either is an answer to a block that continues nothing
			}
			w.Advance(gap)
			// (an S9 notice the equipment role may want to send about it is taken by the loop below)
			if d := x.n.NDelivered() - before; d != 0 {
				bad("stale-block:assembled-across-generations", "block 1 of a 2-block message was received on generation 1, block 2 on generation 2: %d message(s) were delivered to the handlers — a frame assembled from a dead connection's bytes", d)
				return
			}
			for k := 0; k < 4 && x.ep.BidPending(); k++ {
				if _, _, err := x.ep.RecvBlock(e4.ACK); err != nil {
					break
				}
				w.Advance(gap)
			}
		}
		if !watch(time.Second, "after the stale reply") {
			return
		}
		// ---- a fresh message goes through ----
		x.ep.Take(-1)
		fresh := x.send("sync", "g2-x", false, secs2.A("g2-x"))
		blk, s := x.grantOne()
		if s != "" {
			bad("no-recovery", "a fresh send on generation 2: %s", s)
			return
		}
		if !bytes.Contains(blk.Data, []byte("g2-x")) {
			bad("stale-frame", "the first block transmitted for a fresh send on generation 2 is not that message: %x", blk.Data)
			return
		}
		w.Advance(gap)
		if !fresh.h.Done() || fresh.err != nil {
			bad("no-recovery", "the fresh send on generation 2 was acknowledged but returned done=%v err=%v", fresh.h.Done(), fresh.err)
			return
		}
		if !watch(time.Second, "after the fresh send") {
			return
		}
		errs := ""
		for _, c := range x.calls[:len(x.calls)-1] {
			errs += fmt.Sprintf("[%s %v]", c.token, c.err)
		}
		res.outcome = fmt.Sprintf("%s:%s:%s:gen2-up-after-%v:%s", map[bool]string{true: "active", false: "passive"}[cs.Active], cs.State, cs.Fault, tUp-tEnd, errs)
	})
	return res
}

func check(c *vfw.Ctx, t *testing.T, cs caseSpec) {
	onLeak := func(stacks string) {
		c.Violate("secs1:goroutine-leak", fmt.Sprintf("%+v: library goroutines alive 2 virtual minutes after Close:\n%s", cs, stacks[:min(len(stacks), 1500)]), cs)
		c.Abort("goroutine leak wedged the bubble")
	}
	res := run(t, cs, onLeak)
	c.Case(true)
	c.Add("secs1_executions", 1)
	switch {
	case res.harness != "":
		c.HarnessError("%+v: %s", cs, res.harness)
	case res.fail != nil:
		c.Violate("secs1:"+res.fail.key, res.fail.desc, cs)
	default:
		c.Outcome("secs1:" + res.outcome)
	}
}

func TestCheck(t *testing.T) {
	vfw.Main(t, "C09", func(c *vfw.Ctx) {
		c.Level("model_checking")
		c.Rule("SECS-I part (E2, real secs1 connection, E4 peer; T3=30s, T5=2s, T1=100ms T2=300ms RTY=1): roles active/passive (thorough also host) x generation-1 state {W primary acknowledged and waiting for its reply; bidding unanswered; a synchronous send queued behind a stuck bid; two fire-and-forget sends queued behind a stuck bid; between block 1 and block 2 of a 2-block message; the peer between block 1 (acknowledged) and block 2 of a 2-block INBOUND message, block 2 following on generation 2 (nothing may be delivered); reply outstanding AND another send bidding; a synchronous and an asynchronous send started while the peer is in the middle of transmitting a block} + {host role: contention yield whose inbound block reaches a slow (4 s) handler, a second send queued, generation ended by Close(): both sends return within 1 s} x fault {peer close, peer reset}: after the reconnect every generation-1 call has returned within close-timeout + T2*(RTY+1) + T1 of the cut with a definite error (async: accepted), generation 2's socket carries no byte of a generation-1 message for 2 s idle, after a stale reply to the generation-1 primary, and after a fresh send; the fresh send is transmitted as the first block and returns nil")
		c.Assume("testing/synctest virtual time", "sim in-memory network", "E4 peer (peer/e4.go), reference block codec (ref/e4)", "message bodies carry generation tokens (g1-/g2-) that cannot occur in headers or checksums by construction of the scan (a false match would need the three bytes 'g1-' in a block header/checksum)")
		if c.Replay != nil {
			var cs caseSpec
			if err := json.Unmarshal(c.Replay, &cs); err != nil || cs.State == "" {
				return
			}
			check(c, t, cs)
			return
		}
		equips := []bool{true}
		if c.Thorough() {
			equips = []bool{true, false}
		}
		n := int64(0)
		for _, active := range []bool{true, false} {
			for _, equip := range equips {
				for _, st := range states {
					for _, fault := range []string{"close", "reset"} {
						if st == "close-slow-handler" {
							continue // enumerated below (host role, ended by Close)
						}
						n++
						if !c.Next() {
							continue
						}
						check(c, t, caseSpec{Active: active, Equip: equip, State: st, Fault: fault})
					}
				}
			}
		}
		for _, active := range []bool{true, false} {
			n++
			if c.Next() {
				check(c, t, caseSpec{Active: active, Equip: false, State: "close-slow-handler", Fault: "Close()"})
			}
		}
		if c.Shard == 0 {
			c.Graph(n, n, 0)
		}
	})
}
