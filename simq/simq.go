// Package simq holds the pieces of the simulated network that are deliberately NOT
// instrumented for engine E3: sim's own mutexes guard a few field updates with no blocking
// operation inside, and Poke is a non-blocking wake-up. Scheduling points there only
// multiply schedules that differ in the order of harness-internal steps no library
// goroutine can observe; keeping them out roughly halves the decisions of an execution,
// which is what makes two-departure searches affordable.
//
// Soundness condition (kept by sim): no channel operation, select, Once or other
// scheduling point is ever executed while a simq.Mutex is held, so a thread is never
// descheduled inside such a critical section and the real mutex is never contended.
package simq

import "sync"

// Mutex is the real sync.Mutex (never rewritten by the instrumenter).
type Mutex = sync.Mutex

// Poke is a non-blocking send on a capacity-1 wake-up channel.
func Poke(ch chan struct{}) {
	select {
	case ch <- struct{}{}:
	default:
	}
}
