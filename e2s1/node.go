// Package e2s1 is the SECS-I counterpart of e2.World.NewConn: a real secs1 connection
// built inside an e2 bubble (e2.Run) over the bubble's sim network, with the same
// observation logs. The caller owns the connection: Close it before the e2.Run callback
// returns (e2.World.Cleanup only looks after World.C).
package e2s1

import (
	"context"
	"fmt"
	"strings"
	"sync"
	"time"

	"github.com/arloliu/go-secs/v2/hsms"
	"github.com/arloliu/go-secs/v2/secs1"

	"verif/e2"
	"verif/sim"
)

// Opts configures one SECS-I endpoint.
type Opts struct {
	Active bool
	Equip  bool
	Device uint16
	Retry  int
	T1, T2 time.Duration
	T4     time.Duration
	Net    *sim.Net // default: the world's network
	Conn   []hsms.ConnOption
	Extra  []secs1.Option // further transport options (e.g. secs1.WithConnectTimeout)
	// OnData, if set, is called inline (on the line-engine goroutine) after the delivery
	// has been logged.
	OnData func(m *hsms.DataMessage, ep hsms.SECS2Endpoint)
}

// Delivery is one data-message handler invocation.
type Delivery struct {
	Msg *hsms.DataMessage
	At  time.Duration
}

// Node is one real secs1 connection plus its observation logs.
type Node struct {
	W *e2.World
	C secs1.Connection
	O Opts

	mu        sync.Mutex
	States    []e2.StateChange
	Delivered []Delivery
	AsyncErrs []error
	opened    bool
	closed    bool
}

// New builds (but does not open) a secs1 connection in the world.
func New(w *e2.World, o Opts) *Node {
	n := &Node{W: w, O: o}
	net := o.Net
	if net == nil {
		net = w.Net
	}
	opts := []secs1.Option{secs1.WithDialer(net.Dial), secs1.WithListener(net.Listen),
		secs1.WithDeviceID(o.Device), secs1.WithRetryLimit(o.Retry)}
	if o.Active {
		opts = append(opts, secs1.WithActive())
	} else {
		opts = append(opts, secs1.WithPassive())
	}
	if o.Equip {
		opts = append(opts, secs1.WithEquipment())
	} else {
		opts = append(opts, secs1.WithHost())
	}
	if o.T1 > 0 {
		opts = append(opts, secs1.WithT1(o.T1))
	}
	if o.T2 > 0 {
		opts = append(opts, secs1.WithT2(o.T2))
	}
	if o.T4 > 0 {
		opts = append(opts, secs1.WithT4(o.T4))
	}
	co := append([]hsms.ConnOption{hsms.WithLogger(w.Log), hsms.WithAsyncSendErrorHandler(func(_ hsms.Message, err error) {
		n.mu.Lock()
		n.AsyncErrs = append(n.AsyncErrs, err)
		n.mu.Unlock()
	})}, o.Conn...)
	for _, c := range co {
		opts = append(opts, secs1.WithConnectionOption(c))
	}
	opts = append(opts, o.Extra...)
	cfg, err := secs1.NewConfig("127.0.0.1", 5000, opts...)
	if err != nil {
		panic(fmt.Sprintf("e2s1: NewConfig: %v", err))
	}
	c, err := secs1.New(cfg)
	if err != nil {
		panic(fmt.Sprintf("e2s1: New: %v", err))
	}
	n.C = c
	c.AddConnStateChangeHandler(func(prev, next hsms.ConnState) {
		n.mu.Lock()
		n.States = append(n.States, e2.StateChange{Prev: prev, Next: next, At: w.Now()})
		n.mu.Unlock()
	})
	c.AddDataMessageHandler(func(m *hsms.DataMessage, ep hsms.SECS2Endpoint) {
		n.mu.Lock()
		n.Delivered = append(n.Delivered, Delivery{m, w.Now()})
		n.mu.Unlock()
		if o.OnData != nil {
			o.OnData(m, ep)
		}
	})
	return n
}

// Open opens in the background and settles.
func (n *Node) Open() error {
	err := n.C.Open(context.Background(), hsms.OpenBackground)
	if err == nil {
		n.opened = true
	}
	n.W.Settle()
	return err
}

// Close closes the connection (idempotent) and settles.
func (n *Node) Close() error {
	if !n.opened || n.closed {
		return nil
	}
	n.closed = true
	err := n.C.Close()
	n.W.Settle()
	return err
}

// Deliveries copies the delivery log.
func (n *Node) Deliveries() []Delivery {
	n.mu.Lock()
	defer n.mu.Unlock()
	return append([]Delivery(nil), n.Delivered...)
}

// NDelivered is the number of handler deliveries so far.
func (n *Node) NDelivered() int {
	n.mu.Lock()
	defer n.mu.Unlock()
	return len(n.Delivered)
}

// Errs copies the async-send error log.
func (n *Node) Errs() []error {
	n.mu.Lock()
	defer n.mu.Unlock()
	return append([]error(nil), n.AsyncErrs...)
}

// StateLog copies the state-change log.
func (n *Node) StateLog() []e2.StateChange {
	n.mu.Lock()
	defer n.mu.Unlock()
	return append([]e2.StateChange(nil), n.States...)
}

// Finish is what a check calls at the end of its e2.Run callback after closing its
// nodes and harness sockets: it lets stragglers finish and returns the stacks of library
// goroutines still alive ("" if none). e2.World.Cleanup runs the same check again with
// its 2-minute grace and reports through OnLeak/Run's return value.
func Finish(w *e2.World) string {
	w.Settle()
	if gs := e2.LibGoroutines(); len(gs) > 0 {
		w.Advance(time.Second)
		if gs = e2.LibGoroutines(); len(gs) > 0 {
			return strings.Join(gs, "\n\n")
		}
	}
	return ""
}
