module verif

go 1.26.0

require github.com/arloliu/go-secs/v2 v2.0.0

replace github.com/arloliu/go-secs/v2 => /repo
