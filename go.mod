module verif

go 1.26.0

require github.com/arloliu/go-secs/v2 v2.0.0

require (
	github.com/davecgh/go-spew v1.1.1 // indirect
	github.com/phsym/console-slog v0.3.1 // indirect
	github.com/pmezard/go-difflib v1.0.0 // indirect
	github.com/puzpuzpuz/xsync/v3 v3.5.1 // indirect
	github.com/stretchr/testify v1.9.0 // indirect
	gopkg.in/yaml.v3 v3.0.1 // indirect
)

replace github.com/arloliu/go-secs/v2 => /repo
