//go:build verif && !nohook_c06

package hsms

// VerifC06Hook: VerifC06SetSysBytes reaches the counter.
const VerifC06Hook = true

// VerifC06SetSysBytes positions the per-connection System Bytes counter so that the next value
// the library draws is last+1 (mod 2^32). The C06 check uses it to start a run just below a
// boundary the counter cannot reach by counting within the run (2^24, 2^31, the 2^32 wrap).
func VerifC06SetSysBytes(c Connection, last uint32) bool {
	cc, ok := c.(*connection)
	if !ok {
		return false
	}
	cc.sysGen.n.Store(last)

	return true
}
