//go:build verif && !nohook_c11

package hsms

import "time"

// VerifC11NextBackoffDelay exports the pure reconnect-backoff step (nextBackoffDelay) for
// the C11 check: the next delay after a failed attempt, given the current delay, the
// configured multiplier and the T5 ceiling.
func VerifC11NextBackoffDelay(cur time.Duration, multiplier float64, ceil time.Duration) time.Duration {
	return nextBackoffDelay(cur, multiplier, ceil)
}
