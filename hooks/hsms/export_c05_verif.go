//go:build verif && !nohook_c05

package hsms

// Verification-only exports for C05 layer 1 (supervisor component search). Added to the
// package through the build overlay; /repo does not contain this file. It names no
// sync/atomic type so that it compiles against both the plain and the instrumented tree.

// VerifSup drives a real supervisor without its goroutines: the harness keeps the event
// queue itself (events the library enqueues are drained into Queue after every action)
// and calls step for one queued event at a time.
type VerifSup struct {
	s      *supervisor
	holder *connection // owns the handlers pointer the supervisor reads
	Queue  []int
	Reacts [][2]ConnState
}

// Event numbers (mirror of the unexported fsmEvent constants).
const (
	VerifEvTCPUp          = int(evTCPUp)
	VerifEvSelectAccepted = int(evSelectAccepted)
	VerifEvSelectLost     = int(evSelectLost)
	VerifEvDisconnect     = int(evDisconnect)
	VerifEvClose          = int(evClose)
	VerifEvT7Timeout      = int(evT7Timeout)
)

// VerifNewSupervisor builds a fresh supervisor exactly as Open does (minus goroutines).
func VerifNewSupervisor() *VerifSup {
	v := &VerifSup{holder: &connection{}}
	v.s = newSupervisor(func(prev, next ConnState) { v.Reacts = append(v.Reacts, [2]ConnState{prev, next}) }, &v.holder.handlers)
	return v
}

func (v *VerifSup) drain() {
	for {
		select {
		case ev := <-v.s.events:
			v.Queue = append(v.Queue, int(ev))
		default:
			return
		}
	}
}

// State is the value Connection.State() reports.
func (v *VerifSup) State() ConnState { return v.s.State() }

// CommitConnected / CommitSelected / CommitSelectLost are the synchronous commits.
func (v *VerifSup) CommitConnected() bool  { r := v.s.CommitConnected(); v.drain(); return r }
func (v *VerifSup) CommitSelected() bool   { r := v.s.CommitSelected(); v.drain(); return r }
func (v *VerifSup) CommitSelectLost() bool { r := v.s.CommitSelectLost(); v.drain(); return r }

// Inject enqueues an asynchronous event (TCPDown -> evDisconnect, T7Expired -> evT7Timeout).
func (v *VerifSup) Inject(ev int) { v.s.inject(fsmEvent(ev)); v.drain() }

// RequestClose is what Close does first (no epoch pinned: teardown is a no-op here).
func (v *VerifSup) RequestClose() { v.s.requestClose(nil); v.drain() }

// StepNext processes the oldest queued event through the real step function; hook (may
// be nil) runs between step's state load and its store.
func (v *VerifSup) StepNext(hook func()) (ev int, ok bool) {
	if len(v.Queue) == 0 {
		return 0, false
	}
	ev = v.Queue[0]
	v.Queue = v.Queue[1:]
	if hook != nil {
		v.s.testHookAfterStateLoad = func(fsmEvent) { hook() }
	}
	v.s.step(fsmEvent(ev))
	v.s.testHookAfterStateLoad = nil
	v.drain()
	// the kind only: a queued event may carry a stamp in its upper bits (fix for stale events)
	return ev & 0xff, true
}

// Notifications drains the notification channel (what the notifier would deliver next).
func (v *VerifSup) Notifications() [][2]ConnState {
	var out [][2]ConnState
	for {
		select {
		case sc := <-v.s.notify:
			out = append(out, [2]ConnState{sc.prev, sc.next})
		default:
			return out
		}
	}
}

// Internals for the canonical state key.
func (v *VerifSup) LastReacted() ConnState { return v.s.lastReacted }
func (v *VerifSup) Closed() bool           { return v.s.closed }
func (v *VerifSup) Dropped() uint64        { return v.s.droppedNotify.Load() }

// VerifNewSupervisorNotifyCap is VerifNewSupervisor with a notification buffer of n entries: a
// harness that never reads Notifications() during a run then plays a stalled handler, and the
// supervisor's coalescing (emit) is reached after n+1 transitions instead of 17.
func VerifNewSupervisorNotifyCap(n int) *VerifSup {
	v := VerifNewSupervisor()
	v.s.notify = make(chan stateChange, n)

	return v
}
