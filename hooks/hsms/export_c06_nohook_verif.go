//go:build verif && nohook_c06

package hsms

// Built instead of export_c06_verif.go when that file no longer compiles against the tree under
// test (the system-bytes generator changed shape): the positioned runs of C06 are skipped.
const VerifC06Hook = false

func VerifC06SetSysBytes(Connection, uint32) bool { return false }
