//go:build verif && nohook_c17

package secs1

import (
	"errors"
	"time"
)

// Built instead of export_c17_verif.go when that file no longer compiles against the tree under
// test (the inbound assembler changed shape): the C17 check skips its assembler-component part
// (the same histories still run against a real connection in the line part).
const VC17Hook = false

type VC17Asm struct {
	Frames [][]byte
	Notes  []string
}

func VC17NewAssembler(bool, uint16, time.Duration, func() time.Time) (*VC17Asm, error) {
	return nil, errors.New("hook unavailable")
}
func (v *VC17Asm) Reset()                          {}
func (v *VC17Asm) AcceptWire([]byte) (bool, error) { return false, errors.New("hook unavailable") }
func (v *VC17Asm) Open() (bool, uint16)            { return false, 0 }
