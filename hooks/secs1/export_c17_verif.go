//go:build verif && !nohook_c17

package secs1

// Export file for check C17 (injected through `go build -overlay`; never part of the
// library): the real inbound assembler behind a constructor that captures delivered
// frames and violation notifications and takes an injected clock.

import (
	"time"

	"github.com/arloliu/go-secs/v2/hsms"
)

// VC17Hook: VC17Asm drives the library's real assembler.
const VC17Hook = true

// VC17Asm wraps one real assembler.
type VC17Asm struct {
	a     *assembler
	fresh func() *assembler
	// Frames are the synthesized HSMS frames (10-byte header || body) handed to
	// deliverFrame, in order (copies).
	Frames [][]byte
	// Notes are the violation notifications (error text), in order.
	Notes []string
}

// VC17NewAssembler builds the real assembler for the given role/device/T4 with the given clock.
func VC17NewAssembler(equip bool, device uint16, t4 time.Duration, now func() time.Time) (*VC17Asm, error) {
	role := WithHost()
	if equip {
		role = WithEquipment()
	}
	cfg, err := NewConfig("127.0.0.1", 5000, WithDeviceID(device), role, WithT4(t4))
	if err != nil {
		return nil, err
	}
	v := &VC17Asm{}
	timers := func() hsms.TimerConfig { return cfg.ConnectionConfig.Timers() }
	metrics := &ConnectionMetrics{}
	v.fresh = func() *assembler {
		a := newAssembler(cfg, func(frame []byte) error {
			v.Frames = append(v.Frames, append([]byte(nil), frame...))
			return nil
		}, timers, metrics, func(err error, _ [10]byte) {
			v.Notes = append(v.Notes, err.Error())
		})
		a.now = now
		return a
	}
	v.a = v.fresh()
	return v, nil
}

// Reset replaces the assembler by a fresh one (a new connection generation) and clears
// the capture logs.
func (v *VC17Asm) Reset() {
	v.a = v.fresh()
	v.Frames = v.Frames[:0]
	v.Notes = v.Notes[:0]
}

// AcceptWire parses one block transmission (length byte, header, data, checksum) with
// the real parseBlock and feeds it to the real assembler.accept. parsed=false: parseBlock
// rejected it (the line layer would NAK; the assembler never sees it).
func (v *VC17Asm) AcceptWire(wire []byte) (parsed bool, err error) {
	own := append([]byte(nil), wire[1:]...)
	blk, perr := parseBlock(wire[0], own)
	if perr != nil {
		return false, perr
	}
	return true, v.a.accept(blk)
}

// Open reports whether a partial message is open and the expected block number.
func (v *VC17Asm) Open() (bool, uint16) { return v.a.open, v.a.expected }
