//go:build verif && !nohook_core

package hsmsss

import "github.com/arloliu/go-secs/v2/hsms"

// VerifCoreHook: VerifCore reaches the engine connection.
const VerifCoreHook = true

// VerifCore returns the shared hsms engine connection behind an hsmsss.Connection.
func VerifCore(c Connection) hsms.Connection {
	if cc, ok := c.(*connection); ok {
		return cc.Connection
	}

	return nil
}
