//go:build verif

// Exports for the /verif model-checking harness (injected with -overlay; never part of a
// normal build). Thin wrappers only: no logic of their own.
package hsmsss

import "github.com/arloliu/go-secs/v2/hsms"

// VerifLinktestFailureStep exposes the pure failure reducer of the auto-linktest (C19).
func VerifLinktestFailureStep(suppress bool, recvNow, sentAt, inflight int64, fails int, recvAtLastFail int64) (newFails int, newRecvAtLastFail int64, credited bool) {
	return linktestFailureStep(suppress, recvNow, sentAt, inflight, fails, recvAtLastFail)
}

// VerifLinktestDisconnectRecheck exposes the pure pre-disconnect re-check decision (C19).
func VerifLinktestDisconnectRecheck(suppress bool, inflight, recvNow, sentAt int64) bool {
	return linktestDisconnectRecheck(suppress, inflight, recvNow, sentAt)
}

// VerifCore returns the shared hsms engine connection behind an hsmsss.Connection.
func VerifCore(c Connection) hsms.Connection {
	if cc, ok := c.(*connection); ok {
		return cc.Connection
	}

	return nil
}
