//go:build verif && !nohook_c19

// Exports for the /verif model-checking harness (injected with -overlay; never part of a
// normal build). Thin wrappers only: no logic of their own.
package hsmsss

// VerifC19Hook: the pure linktest functions below are bound to the library's.
const VerifC19Hook = true

// VerifLinktestFailureStep exposes the pure failure reducer of the auto-linktest (C19).
func VerifLinktestFailureStep(suppress bool, recvNow, sentAt, inflight int64, fails int, recvAtLastFail int64) (newFails int, newRecvAtLastFail int64, credited bool) {
	return linktestFailureStep(suppress, recvNow, sentAt, inflight, fails, recvAtLastFail)
}

// VerifLinktestDisconnectRecheck exposes the pure pre-disconnect re-check decision (C19).
func VerifLinktestDisconnectRecheck(suppress bool, inflight, recvNow, sentAt int64) bool {
	return linktestDisconnectRecheck(suppress, inflight, recvNow, sentAt)
}
