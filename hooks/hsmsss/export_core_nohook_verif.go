//go:build verif && nohook_core

package hsmsss

import "github.com/arloliu/go-secs/v2/hsms"

// Built instead of export_core_verif.go when that file no longer compiles against the tree.
const VerifCoreHook = false

func VerifCore(Connection) hsms.Connection { return nil }
