//go:build verif && nohook_c19

package hsmsss

// Built instead of export_c19_verif.go when that file no longer compiles against the tree under
// test (the pure linktest functions changed shape): the C19 check skips its part A and says so.
const VerifC19Hook = false

func VerifLinktestFailureStep(bool, int64, int64, int64, int, int64) (int, int64, bool) {
	panic("hook unavailable")
}

func VerifLinktestDisconnectRecheck(bool, int64, int64, int64) bool { panic("hook unavailable") }
