// Package vatomic mirrors the sync/atomic types the library uses, with a scheduling
// point before every operation (a no-op when no scheduler is active).
package vatomic

import (
	"sync/atomic"

	"github.com/arloliu/go-secs/v2/zverif/vsched"
)

type Uint32 struct{ v atomic.Uint32 }

func (x *Uint32) Load() uint32        { vsched.Point("a.Load"); return x.v.Load() }
func (x *Uint32) Store(v uint32)      { vsched.Point("a.Store"); x.v.Store(v) }
func (x *Uint32) Add(d uint32) uint32 { vsched.Point("a.Add"); return x.v.Add(d) }
func (x *Uint32) Swap(n uint32) uint32 {
	vsched.Point("a.Swap")
	return x.v.Swap(n)
}
func (x *Uint32) CompareAndSwap(o, n uint32) bool {
	vsched.Point("a.CAS")
	return x.v.CompareAndSwap(o, n)
}

type Int32 struct{ v atomic.Int32 }

func (x *Int32) Load() int32       { vsched.Point("a.Load"); return x.v.Load() }
func (x *Int32) Store(v int32)     { vsched.Point("a.Store"); x.v.Store(v) }
func (x *Int32) Add(d int32) int32 { vsched.Point("a.Add"); return x.v.Add(d) }
func (x *Int32) CompareAndSwap(o, n int32) bool {
	vsched.Point("a.CAS")
	return x.v.CompareAndSwap(o, n)
}

type Uint64 struct{ v atomic.Uint64 }

func (x *Uint64) Load() uint64        { vsched.Point("a.Load"); return x.v.Load() }
func (x *Uint64) Store(v uint64)      { vsched.Point("a.Store"); x.v.Store(v) }
func (x *Uint64) Add(d uint64) uint64 { vsched.Point("a.Add"); return x.v.Add(d) }
func (x *Uint64) CompareAndSwap(o, n uint64) bool {
	vsched.Point("a.CAS")
	return x.v.CompareAndSwap(o, n)
}

type Int64 struct{ v atomic.Int64 }

func (x *Int64) Load() int64       { vsched.Point("a.Load"); return x.v.Load() }
func (x *Int64) Store(v int64)     { vsched.Point("a.Store"); x.v.Store(v) }
func (x *Int64) Add(d int64) int64 { vsched.Point("a.Add"); return x.v.Add(d) }
func (x *Int64) CompareAndSwap(o, n int64) bool {
	vsched.Point("a.CAS")
	return x.v.CompareAndSwap(o, n)
}

type Bool struct{ v atomic.Bool }

func (x *Bool) Load() bool   { vsched.Point("a.Load"); return x.v.Load() }
func (x *Bool) Store(v bool) { vsched.Point("a.Store"); x.v.Store(v) }
func (x *Bool) Swap(n bool) bool {
	vsched.Point("a.Swap")
	return x.v.Swap(n)
}
func (x *Bool) CompareAndSwap(o, n bool) bool {
	vsched.Point("a.CAS")
	return x.v.CompareAndSwap(o, n)
}

type Pointer[T any] struct{ v atomic.Pointer[T] }

func (x *Pointer[T]) Load() *T   { vsched.Point("a.Load"); return x.v.Load() }
func (x *Pointer[T]) Store(v *T) { vsched.Point("a.Store"); x.v.Store(v) }
func (x *Pointer[T]) Swap(n *T) *T {
	vsched.Point("a.Swap")
	return x.v.Swap(n)
}
func (x *Pointer[T]) CompareAndSwap(o, n *T) bool {
	vsched.Point("a.CAS")
	return x.v.CompareAndSwap(o, n)
}

type Value = atomic.Value

func LoadInt64(p *int64) int64     { vsched.Point("a.Load"); return atomic.LoadInt64(p) }
func StoreInt64(p *int64, v int64) { vsched.Point("a.Store"); atomic.StoreInt64(p, v) }
func AddInt64(p *int64, d int64) int64 {
	vsched.Point("a.Add")
	return atomic.AddInt64(p, d)
}
func LoadUint64(p *uint64) uint64 { vsched.Point("a.Load"); return atomic.LoadUint64(p) }
func AddUint64(p *uint64, d uint64) uint64 {
	vsched.Point("a.Add")
	return atomic.AddUint64(p, d)
}
func LoadInt32(p *int32) int32     { vsched.Point("a.Load"); return atomic.LoadInt32(p) }
func StoreInt32(p *int32, v int32) { vsched.Point("a.Store"); atomic.StoreInt32(p, v) }
func AddInt32(p *int32, d int32) int32 {
	vsched.Point("a.Add")
	return atomic.AddInt32(p, d)
}
func CompareAndSwapInt32(p *int32, o, n int32) bool {
	vsched.Point("a.CAS")
	return atomic.CompareAndSwapInt32(p, o, n)
}
func CompareAndSwapInt64(p *int64, o, n int64) bool {
	vsched.Point("a.CAS")
	return atomic.CompareAndSwapInt64(p, o, n)
}
