module shimsrc

go 1.26.0
