// Package vsched is the cooperative controlled scheduler of engine E3. The library
// source is instrumented at build time (cmd/vinstr, go build -overlay) so that every
// synchronisation operation is preceded by Point(label). While a Sched is active every
// goroutine that reaches a Point parks on its own gate channel (a durable block inside a
// testing/synctest bubble); the scheduler goroutine waits for quiescence
// (synctest.Wait), lists the parked threads in a canonical order and releases exactly
// one — the choice is 0 (canonical) unless the replay prefix says otherwise. Without an
// active Sched every function here is a cheap no-op / plain operation.
package vsched

import (
	"fmt"
	"reflect"
	"runtime"
	"sort"
	"strconv"
	"strings"
	"sync"
	"sync/atomic"
	"time"
)

// Thread is one goroutine known to the scheduler.
type Thread struct {
	Name  string
	gate  chan struct{}
	label string
	// harness: named explicitly by the scenario (environment / application thread), as
	// opposed to a goroutine created by the library
	harness bool
}

// Decision is one recorded scheduling (or select) decision.
type Decision struct {
	Enabled        []string // canonical order; index 0 is the default choice
	Labels         []string // where each enabled thread is parked
	Chosen         int
	RunningEnabled bool // the thread that ran last is still enabled
	Select         bool // a "which ready case wins" decision inside a select
	Ineffective    bool // select decision whose chosen case was not ready (same run as choice 0)
}

// Sched drives one execution.
type Sched struct {
	mu          sync.Mutex
	threads     map[uint64]*Thread
	kinds       map[string]int
	gated       []*Thread
	arrived     chan struct{}
	Trace       []Decision
	prefix      []int
	last        *Thread
	delayed     []*Thread
	Horizon     time.Duration // virtual time after which an idle system is considered finished/hung
	MaxSteps    int
	Demote      string // name of a thread that is scheduled only when nothing else is enabled
	Diverged    string // non-empty: the replay prefix did not fit (harness error)
	Hung        bool   // nothing enabled, harness unfinished, horizon reached
	pendingName map[uint64]string
	exempt      uint64
	tickReq     bool
	Steps       int
}

var active atomic.Pointer[Sched]

// LibFirst as Sched.Demote selects the library-first canonical order: harness threads
// (the environment) are scheduled only when no library goroutine is enabled, even the one
// that ran last. The default order lets the last-run thread continue, so an environment
// thread performs its whole burst of actions before the library reacts; under LibFirst
// the library reacts to each single action first. Departure-bounded search around both
// canonical schedules covers two different neighbourhoods.
const LibFirst = "~*"

// Sticky as a suffix of Sched.Demote ("+", "~*+") turns every departure into a delay in the
// sense of delay-bounded scheduling (Emmi, Qadeer, Rakamaric, POPL 2011): a thread passed
// over by a non-default choice goes behind every other enabled thread until it has run
// again, instead of regaining its place as soon as the preferred thread blocks. One sticky
// departure is "this goroutine is preempted here for as long as anything else can run".
const Sticky = "+"

func (s *Sched) policy() string { return strings.TrimSuffix(s.Demote, Sticky) }
func (s *Sched) sticky() bool   { return strings.HasSuffix(s.Demote, Sticky) }

func goid() uint64 {
	var buf [64]byte
	n := runtime.Stack(buf[:], false)
	s := string(buf[:n])
	s = strings.TrimPrefix(s, "goroutine ")
	i := strings.IndexByte(s, ' ')
	id, _ := strconv.ParseUint(s[:i], 10, 64)
	return id
}

// New creates a scheduler that replays prefix and then always takes choice 0.
func New(prefix []int) *Sched {
	return &Sched{threads: map[uint64]*Thread{}, kinds: map[string]int{},
		arrived: make(chan struct{}, 1), prefix: prefix, Horizon: 1000 * time.Hour, MaxSteps: 200000,
		pendingName: map[uint64]string{}}
}

// Activate / Deactivate switch the instrumentation on and off.
func (s *Sched) Activate()   { active.Store(s) }
func (s *Sched) Deactivate() { active.Store(nil) }

// Active reports whether a scheduler is driving the process.
func Active() bool { return active.Load() != nil }

// Exempt marks the calling goroutine (scheduler / monitor) as not schedulable.
func (s *Sched) Exempt() { s.exempt = goid() }

// Name gives the calling goroutine an explicit thread name (harness threads).
func Name(name string) {
	s := active.Load()
	if s == nil {
		return
	}
	g := goid()
	s.mu.Lock()
	s.pendingName[g] = name
	s.mu.Unlock()
}

// Point is a scheduling point: the caller parks until the scheduler releases it.
func Point(label string) {
	s := active.Load()
	if s == nil {
		return
	}
	g := goid()
	if g == s.exempt {
		return
	}
	s.mu.Lock()
	th := s.threads[g]
	if th == nil {
		name, ok := s.pendingName[g]
		if !ok {
			k := label
			if i := strings.LastIndexByte(k, ' '); i >= 0 {
				k = k[:i] // file:line of the first point = creation-site kind
			}
			s.kinds[k]++
			name = fmt.Sprintf("%s#%d", k, s.kinds[k])
		}
		th = &Thread{Name: name, gate: make(chan struct{}), harness: ok}
		s.threads[g] = th
	}
	th.label = label
	s.gated = append(s.gated, th)
	s.mu.Unlock()
	select {
	case s.arrived <- struct{}{}:
	default:
	}
	<-th.gate
}

// Tick is a thread-level operation: when the calling thread is scheduled here, the
// bubble clock jumps to the next pending timer while every other thread stays gated —
// "the timer lands first" becomes an ordinary schedule choice.
func Tick() {
	s := active.Load()
	if s == nil {
		return
	}
	Point("tick")
	s.mu.Lock()
	s.tickReq = true
	s.mu.Unlock()
	Point("tick.done")
}

// RangePoint is inserted before a range statement and at the top of its body; it
// yields only when the ranged value is a channel.
func RangePoint(x any, label string) {
	if active.Load() == nil {
		return
	}
	if x != nil && reflect.TypeOf(x).Kind() == reflect.Chan {
		Point(label)
	}
}

// Run drives the schedule: wait is synctest.Wait, finished reports whether every
// harness thread has returned, mon is evaluated at every quiescent point (on the
// scheduler goroutine, which must have called Exempt).
func (s *Sched) Run(wait func(), finished func() bool, mon func()) {
	for s.Steps = 0; s.Steps < s.MaxSteps; s.Steps++ {
		wait()
		if mon != nil {
			mon()
		}
		s.mu.Lock()
		en := append([]*Thread(nil), s.gated...)
		tick := s.tickReq
		s.tickReq = false
		s.mu.Unlock()
		if tick {
			select {
			case <-s.arrived:
			default:
			}
			// everything is gated or natively blocked: the bubble clock jumps to the next timer
			tm := time.NewTimer(s.Horizon)
			select {
			case <-s.arrived:
			case <-tm.C:
			}
			tm.Stop()
			continue
		}
		if len(en) == 0 {
			if finished() {
				return
			}
			tm := time.NewTimer(s.Horizon)
			select {
			case <-s.arrived:
				tm.Stop()
			case <-tm.C:
				s.Hung = true
				return
			}
			continue
		}
		// A clock tick (virtual time jumps to the next timer while everything else stays
		// parked) models "the timer lands first" relative to the ENVIRONMENT's next action,
		// whose timing is free. It must not starve library goroutines that are ready to run
		// (that would be an unfair schedule: e.g. a 5 s close timeout expiring while the
		// goroutine it waits for is runnable). So a thread parked at "tick" is enabled only
		// while no library thread is enabled.
		libReady := false
		for _, th := range en {
			if !th.harness {
				libReady = true
				break
			}
		}
		if libReady {
			k := 0
			for _, th := range en {
				if th.label != "tick" {
					en[k] = th
					k++
				}
			}
			en = en[:k]
		}
		sort.Slice(en, func(i, j int) bool { return en[i].Name < en[j].Name })
		runningEnabled := false
		for i, th := range en {
			if th == s.last {
				if s.policy() == LibFirst && th.harness && libReady {
					// library-first policy: a harness thread keeps the processor only while no
					// library goroutine can run (the environment acts as late as possible)
					break
				}
				runningEnabled = true
				copy(en[1:i+1], en[0:i])
				en[0] = th
				break
			}
		}
		// starvation schedule: the demoted thread goes last, i.e. it runs only when nothing
		// else can (priority-lowered schedule; replayable like any other since the canonical
		// order is a function of the enabled set and Demote)
		if pol := s.policy(); pol != "" && pol != LibFirst && len(en) > 1 {
			for i, th := range en {
				if th.Name == pol {
					copy(en[i:], en[i+1:])
					en[len(en)-1] = th
					break
				}
			}
		}
		// sticky departures: threads passed over by an earlier non-default choice stay behind
		// every other enabled thread (in the order they were passed over) until they run again
		if s.sticky() && len(s.delayed) > 0 && len(en) > 1 {
			isDelayed := func(th *Thread) int {
				for k, d := range s.delayed {
					if d == th {
						return k
					}
				}
				return -1
			}
			sort.SliceStable(en, func(i, j int) bool {
				di, dj := isDelayed(en[i]), isDelayed(en[j])
				if di < 0 || dj < 0 {
					return di < 0 && dj >= 0
				}
				return di < dj
			})
			runningEnabled = runningEnabled && en[0] == s.last
		}
		choice := 0
		idx := len(s.Trace)
		if idx < len(s.prefix) {
			choice = s.prefix[idx]
			if choice >= len(en) {
				s.Diverged = fmt.Sprintf("decision %d: choice %d out of range (%d enabled)", idx, choice, len(en))
				choice = 0
			}
		}
		d := Decision{Chosen: choice, RunningEnabled: runningEnabled}
		for _, th := range en {
			d.Enabled = append(d.Enabled, th.Name)
			d.Labels = append(d.Labels, th.label)
		}
		s.mu.Lock()
		s.Trace = append(s.Trace, d)
		th := en[choice]
		for i, g := range s.gated {
			if g == th {
				s.gated = append(s.gated[:i], s.gated[i+1:]...)
				break
			}
		}
		s.mu.Unlock()
		if s.sticky() {
			for _, passed := range en[:choice] {
				known := false
				for _, d := range s.delayed {
					known = known || d == passed
				}
				if !known {
					s.delayed = append(s.delayed, passed)
				}
			}
			for k, d := range s.delayed {
				if d == th {
					s.delayed = append(s.delayed[:k:k], s.delayed[k+1:]...)
					break
				}
			}
		}
		s.last = th
		select {
		case <-s.arrived:
		default:
		}
		th.gate <- struct{}{}
	}
	s.Diverged = "step cap reached (livelock or a polling loop)"
}

// ReleaseAll lets every parked thread go (used after Deactivate so that the bubble can
// drain).
func (s *Sched) ReleaseAll() {
	s.mu.Lock()
	g := s.gated
	s.gated = nil
	s.mu.Unlock()
	for _, th := range g {
		th.gate <- struct{}{}
	}
}

// ---- scheduler-mediated select ----

// Case is one communication clause.
type Case interface{ rc() reflect.SelectCase }

// RecvCase is `case v := <-ch`.
type RecvCase[T any] struct{ ch <-chan T }

// R builds a receive case.
func R[T any](ch <-chan T) RecvCase[T] { return RecvCase[T]{ch} }
func (c RecvCase[T]) rc() reflect.SelectCase {
	return reflect.SelectCase{Dir: reflect.SelectRecv, Chan: reflect.ValueOf(c.ch)}
}

// Val returns the received value.
func (c RecvCase[T]) Val(s *Sel) T { v, _ := c.Val2(s); return v }

// Val2 returns the received value and the ok flag.
func (c RecvCase[T]) Val2(s *Sel) (T, bool) {
	var zero T
	if !s.ok {
		return zero, false
	}
	v, _ := s.recv.Interface().(T)
	return v, true
}

// SendCase is `case ch <- v`.
type SendCase[T any] struct {
	ch chan<- T
	v  T
}

// S builds a send case.
func S[T any](ch chan<- T, v T) SendCase[T] { return SendCase[T]{ch, v} }
func (c SendCase[T]) rc() reflect.SelectCase {
	return reflect.SelectCase{Dir: reflect.SelectSend, Chan: reflect.ValueOf(c.ch), Send: reflect.ValueOf(&c.v).Elem()}
}

// Sel is the outcome of a Select.
type Sel struct {
	I    int
	recv reflect.Value
	ok   bool
}

// Select implements `select` with the ready-case choice owned by the scheduler: cases
// are polled one at a time in a priority order whose first element is a recorded
// decision; only if none is ready does the goroutine block on all of them.
func Select(label string, hasDefault bool, cases ...Case) *Sel {
	rcs := make([]reflect.SelectCase, len(cases))
	for i, c := range cases {
		rcs[i] = c.rc()
	}
	s := active.Load()
	if s == nil || goid() == s.exempt {
		if hasDefault {
			rcs = append(rcs, reflect.SelectCase{Dir: reflect.SelectDefault})
		}
		i, v, ok := reflect.Select(rcs)
		return &Sel{I: i, recv: v, ok: ok}
	}
	Point(label)
	// which cases are ready right now? (nothing else runs: we hold the only running slot)
	first, didx := 0, -1
	if len(cases) > 1 {
		first, didx = s.chooseSelect(label, len(cases))
	}
	order := []int{first}
	for i := range cases {
		if i != first {
			order = append(order, i)
		}
	}
	for _, i := range order {
		j, v, ok := reflect.Select([]reflect.SelectCase{rcs[i], {Dir: reflect.SelectDefault}})
		if j == 0 {
			if i != first {
				s.markIneffective(didx)
			}
			return &Sel{I: i, recv: v, ok: ok}
		}
	}
	s.markIneffective(didx)
	if hasDefault {
		return &Sel{I: len(cases)}
	}
	i, v, ok := reflect.Select(rcs)
	return &Sel{I: i, recv: v, ok: ok}
}

func (s *Sched) markIneffective(didx int) {
	if didx < 0 {
		return
	}
	s.mu.Lock()
	if s.Trace[didx].Chosen != 0 {
		s.Trace[didx].Ineffective = true
	}
	s.mu.Unlock()
}

func (s *Sched) chooseSelect(label string, n int) (int, int) {
	s.mu.Lock()
	defer s.mu.Unlock()
	choice := 0
	idx := len(s.Trace)
	if idx < len(s.prefix) {
		choice = s.prefix[idx]
		if choice >= n {
			s.Diverged = fmt.Sprintf("select decision %d: choice %d out of range %d", idx, choice, n)
			choice = 0
		}
	}
	d := Decision{Chosen: choice, Select: true}
	for i := 0; i < n; i++ {
		d.Enabled = append(d.Enabled, fmt.Sprintf("case%d", i))
		d.Labels = append(d.Labels, label)
	}
	s.Trace = append(s.Trace, d)
	return choice, idx
}
