// Package vsync: drop-in cooperative replacements for the sync types used by the library.
package vsync

import (
	"sync"

	"github.com/arloliu/go-secs/v2/zverif/vsched"
)

type Locker = sync.Locker
type Pool = sync.Pool

type waiter chan struct{}

type Mutex struct {
	mu      sync.Mutex
	held    bool
	waiters []waiter
}

func (m *Mutex) Lock() {
	vsched.Point("mutex.Lock")
	for {
		m.mu.Lock()
		if !m.held {
			m.held = true
			m.mu.Unlock()
			return
		}
		w := make(waiter)
		m.waiters = append(m.waiters, w)
		m.mu.Unlock()
		<-w
		vsched.Point("mutex.Lock.retry")
	}
}

func (m *Mutex) TryLock() bool {
	vsched.Point("mutex.TryLock")
	m.mu.Lock()
	defer m.mu.Unlock()
	if m.held {
		return false
	}
	m.held = true
	return true
}

func (m *Mutex) Unlock() {
	vsched.Point("mutex.Unlock")
	m.mu.Lock()
	if !m.held {
		m.mu.Unlock()
		panic("vsync: unlock of unlocked mutex")
	}
	m.held = false
	ws := m.waiters
	m.waiters = nil
	m.mu.Unlock()
	for _, w := range ws {
		close(w)
	}
}

type RWMutex struct {
	mu      sync.Mutex
	writer  bool
	readers int
	waiters []waiter
}

func (m *RWMutex) wakeAll() {
	ws := m.waiters
	m.waiters = nil
	for _, w := range ws {
		close(w)
	}
}

func (m *RWMutex) Lock() {
	vsched.Point("rw.Lock")
	for {
		m.mu.Lock()
		if !m.writer && m.readers == 0 {
			m.writer = true
			m.mu.Unlock()
			return
		}
		w := make(waiter)
		m.waiters = append(m.waiters, w)
		m.mu.Unlock()
		<-w
		vsched.Point("rw.Lock.retry")
	}
}
func (m *RWMutex) Unlock() {
	vsched.Point("rw.Unlock")
	m.mu.Lock()
	m.writer = false
	m.wakeAll()
	m.mu.Unlock()
}
func (m *RWMutex) RLock() {
	vsched.Point("rw.RLock")
	for {
		m.mu.Lock()
		if !m.writer {
			m.readers++
			m.mu.Unlock()
			return
		}
		w := make(waiter)
		m.waiters = append(m.waiters, w)
		m.mu.Unlock()
		<-w
		vsched.Point("rw.RLock.retry")
	}
}
func (m *RWMutex) RUnlock() {
	vsched.Point("rw.RUnlock")
	m.mu.Lock()
	m.readers--
	if m.readers == 0 {
		m.wakeAll()
	}
	m.mu.Unlock()
}

type Once struct {
	m    Mutex
	done bool
}

func (o *Once) Do(f func()) {
	o.m.Lock()
	defer o.m.Unlock()
	if !o.done {
		defer func() { o.done = true }()
		f()
	}
}

type WaitGroup struct {
	wg sync.WaitGroup
}

func (w *WaitGroup) Add(n int) { vsched.Point("wg.Add"); w.wg.Add(n) }
func (w *WaitGroup) Done()     { vsched.Point("wg.Done"); w.wg.Done() }
func (w *WaitGroup) Wait()     { vsched.Point("wg.Wait"); w.wg.Wait(); vsched.Point("wg.Wait.ret") }
func (w *WaitGroup) Go(f func()) {
	w.Add(1)
	go func() {
		defer w.Done()
		f()
	}()
}
