#!/usr/bin/env python3
"""Regenerates /verif/MANIFEST.json from the table below (one place to edit)."""
import json
import os

ROOT = os.path.dirname(os.path.abspath(__file__))
ALL = ["C%02d" % i for i in range(1, 21)]

E1 = "bounded-exhaustive enumeration against a reference model (small-scope model checking of a sequential API)"
E2 = "explicit-state search over environment event histories on the real connection in a synctest bubble (virtual time, in-memory network), oracle = reference model per step"
E3 = "stateless model checking: departure-bounded DFS over schedules of the real instrumented code under a controlled scheduler"

CHECKS = {
 "C01": dict(engine="E1-enum", cat="exploration", tech=E1,
  text="Exhaustive enumeration of the stated item grid (every format code x boundary counts x value patterns x Go argument shapes, all list trees up to N nodes, depth chains 0..64, slab and length-field boundaries, the 2^24-1 cap) on the real constructors/encoder/decoder, each compared byte-for-byte and value-for-value with an independent SEMI E5 reference model.",
  note="Exhaustive only over the stated grid; values outside the patterns are not explored. Trusted: ref/e5 (written from the standard), Go runtime."),
 "C02": dict(engine="E1-enum", cat="exploration", tech=E1,
  text="Exhaustive enumeration on the real secs2.Decode/DecodeOwned of every byte string of length <= 3 (thorough: length 4 over the header-relevant alphabet); around a corpus of valid encodings every truncation, single substitution, header-length rewrite (incl. non-canonical forms) and (thorough) double substitution; depth 60..66 chains; a hostile-length grid over all 64 format codes. Each input compared for accept/reject, values, consumed-prefix re-encoding and entry-point agreement with an independent SEMI E5 grammar reader; per-call allocation bound 96*len+128KiB asserted on the hostile and rewrite families; workers under ulimit so a crash is an observed violation.",
  note="Exhaustive only over the stated families; inputs longer than 4 bytes are covered only as neighbours of the corpus and the hostile grid. The allocation bound is measured, not proved. Trusted: ref/e5, refcmp, runtime MemStats."),
 "C03": dict(engine="E1-enum", cat="exploration", tech=E1,
  text="Exhaustive enumeration on the real constructors, serializer and decoders: all 131072 (stream, function, W) triples x session-id / system-byte / body combinations; every control constructor x all 256 status/reason bytes; all re-stamp/derive chains of length <= 3 on constructed and decoded messages; each compared byte-for-byte with an independent SEMI E37 frame model composed with the E5 reference encoder and decoded back through all decode entry points.",
  note="Codec part. Exhaustive over the stated grid only (8 bodies, 5 session ids, 5 system-byte patterns). Bodies whose frame exceeds the documented 2^24-1 decode cap are outside the round-trip claim. The 'what a connection writes' clause is covered by the exact-frame oracles of C08/C06 (frames read by the scripted peer). Trusted: ref/e37, ref/e5."),
 "C04": dict(engine="E1-enum + E2-bubble", cat="exploration", tech=E1 + "; stream part: " + E2,
  text="Part (a): exhaustive byte-level enumeration against the three frame-decode entry points (all strings <= 2 bytes, 60 seed frames x every truncation / single-byte mutation / length-field rewrite incl. cap, cap+1, 2^31, 2^32-1 with a 1 MiB allocation bound, all 65536 PType x SType pairs, all data frames with any 1-2 byte body), oracle = E37 accept rule + E5 body verdict + identical error to every holder on every call. Part (b): on a real Selected connection every segmentation (<= 2 cuts, all-singletons) and every in-frame / between-frame delay around T8 of short frame streams; hostile length fields. Also streams with a 70 000-byte frame, streams with header-rejectable frames that carry a body, and a local send in the middle of an in-frame pause.",
  note="Mutations beyond two bytes are not explored; the concurrent first-call of the lazy decode is covered by C12's race pass. Trusted: ref/e37, ref/e5, synctest, sim."),
 "C05": dict(engine="E3-sched + explicit-state graph search", cat="model_checking", tech="explicit-state BFS over the real supervisor's step/commit functions (state = replayed action history, canonical-key merging) + " + E3,
  text="Layer 1: breadth-first closure (to the stated depth) of all transport-producible action sequences on the REAL supervisor (commits, async injects, requestClose, step, commits landing between step's load and store), oracle after every action = reference in which a state change takes effect exactly when its cause does. Layer 3: every schedule with <= B departures of system scenarios (peer connect/select/deselect/drop vs Close/Open vs T7 clock) on the real instrumented hsmsss connection, invariants evaluated at every scheduling point; one scenario on a real passive secs1 connection (connect vs Close). After the bounded DFS every scenario is also run once per thread with that thread starved (scheduled only when nothing else can run). Layer 1 also replays every history with a stalled notification handler (buffer of 1 and 2 entries) against the coalescing contract.",
  note="Bounded: graph depth and departure bound are reported per run; schedules beyond the bound and scheduling points the instrumenter does not know are not explored. The genuine defects this check found (F5, F6, F7, F8) are repaired in /repo (fix: 68e8d01, 28b19f3, a7c29a2, 3fe639a, e7f57d6); no known finding is left for this property."),
 "C08": dict(engine="E2-bubble + E3-sched", cat="model_checking", tech=E2 + "; schedule part (library-initiated control transactions ending on T6): " + E3,
  text="Tree search: every history of peer frames of length <= D over a 16-symbol alphabet (all control requests/responses, orphan responses, data, malformed frames, second connect / reconnect) replayed on a fresh real hsmsss connection per history; after EVERY step the exact FIFO of frames the library wrote, State(), handler deliveries and connection liveness are compared with a reference E37 responder; plus depth-1 over every malformed (SType 0..255 x PType x body) frame; passive/active(after and during select) x equip/host x session-id validation. Bursts of up to 200 (thorough 1000) control requests / malformed frames in one segment: one answer each, in order.",
  note="Depth-bounded (quick 3-4, thorough 4-5); events are separated by quiescence (exact ties are E3's job). Trusted: synctest, sim, the reference responder."),
 "C13": dict(engine="E1-enum", cat="exploration", tech=E1,
  text="Exhaustive enumeration of messages (all ASCII strings <= 2 over 256 byte values and 3-4 over 19 grammar bytes; numeric vectors over all extremes; binary/boolean vectors; safe JIS-8 / localized text; all list trees <= 4-5 nodes; 18 legal headers) x all 54 strict-encoder option combinations through the real EncodeMessage/ParseStrict; plus every token sequence <= 4-5 over the 26-token alphabet (bare and in 4 seeding contexts): each accepted text re-encoded with all combinations and re-parsed. All 49,152 legal (stream, function, W) headers on two bodies.",
  note="Exhaustive only over the stated grid; localized text that Go %q escapes and lists with EmptyItem children are observed, not demanded; equality ignores NaN payload and LSH. The genuine defect this check found ('>' unescaped) is repaired in /repo (fix: commit 580939f)."),
 "C15": dict(engine="E1-enum", cat="exploration", tech=E1,
  text="Exhaustive enumeration of the C01 item grid (boundary counts, all value patterns incl. numeric extremes), all list trees <= 5-6 nodes incl. EmptyItem children, depth chains and wide lists: sml.Encode compared byte-for-byte with ToSML; numeric/boolean/binary items parsed back with Parse and ParseStrict and matched against ref/e5 values. History independence: after each non-default rendering of the same item every default entry point still equals ToSML.",
  note="Exhaustive only over the stated grid; read-back not demanded for string items or lists with an EmptyItem. Trusted: ref/e5, refcmp."),
}

CHECKS.update({
 "C09": dict(engine="E2-bubble + E3-sched", cat="model_checking", tech=E2 + "; " + E3,
  text="E2: full product (thorough; covering subset in quick) of roles x sends awaiting a reply {0,1,2} x a send blocked mid-write x queued fire-and-forget sends {0,1,3} x generation-ending event {peer close, reset, write timeout, Close+Open, linktest failure, T8 inside a frame, Separate.req} x refused re-dials x late reply for an old transaction x new sends, on a real hsmsss connection; every payload carries a token naming the generation that accepted it; oracle: generation 2's socket never carries a generation-1 token, every generation-1 waiter returns connection-closed / its own timeout promptly and never a reply, late replies never complete generation-2 sends. E3: every schedule with <= B departures of {sender pinned to generation 1, peer drop, reconnecting+selecting peer}. Slow-handler and stalled-peer families: waiting sends are released within 1 s of the end of the generation.",
  note="HSMS-SS by the full product; SECS-I by part checks/c09t (7 unfinished-message states of generation 1 x close/reset x roles on a real secs1 connection with an E4 peer: calls return promptly with a definite error, no byte of a generation-1 message on generation 2, a fresh send goes through). Bounded by the stated product and by the departure bound; exact timer ties outside E3's scenarios are not explored. Built on the instrumented tree so that a writer stalled mid-write (holding the write lock) does not wedge the bubble."),
 "C10": dict(engine="E2-bubble + E3-sched", cat="model_checking", tech=E2 + "; " + E3,
  text="E2 tree search: every history of length <= D (quick 3, thorough 4) over {Open(background), Open(wait), Close, SendDataMessage, UpdateConfigOptions, dial answer accept/refuse/black-hole, peer connect/select/reject/close/stall, advance 100ms/3s}, each API call on its own goroutine, active and passive; after every step: no panic, each call within its documented virtual-time bound, Open-on-open = ErrAlreadyOpen without side effects; final phase per history: Close within the close timeout, idempotent re-Close, no dial/listen for 12 s, every socket and listener closed, no library goroutine, re-Open + select + round trip + Close works. The same tree search runs on a real SECS-I (secs1) connection, active+host and passive+equipment, with an independent E4 peer for the final round trip. E3: every schedule with <= B departures of {Close, Close, peer drop}, {Open, Close, Send}, {peer connect, Close}: no deadlock, documented return values, same leak checks. The HSMS-SS tree search also starts from an established Selected session (histories <= D-1 incl. UpdateConfigOptions(WithWriteTimeout(0))); every call started in a history must have returned once the final Close has.",
  note="Black-holed dials are bounded by the configured connect timeout (an unbounded OS dial is outside the model); a SECS-I peer stall keeps a 64 KiB receive window (a zero-byte TCP window blocking a 1-byte write for ever is outside the model: SECS-I disables the core write timeout). The E3 overlaps are HSMS-SS only. State() after Close is C05's clause. Depth / departure bounds as stated."),
 "C11": dict(engine="E2-bubble + E1-enum", cat="model_checking", tech=E2 + " (fault enumeration); backoff step: " + E1,
  text="Exhaustive fault enumeration on the real hsmsss connection in virtual time: a canonical session (TCP up, select, data both ways, linktest) is cut after every byte of both stream directions by {peer close, reset, stall, mute}, on the first and on the re-established link, both roles, 3 backoff configurations, 2 timer sets and 0/1/2/5 refused dials or failed listens; special scenarios: select rejection, T7, cold start, double drop, Close mid-backoff. Oracle: reference predicts exactly when the link is given up and by which timer, every dial time per the documented backoff, Reconnecting/Reconnects, a working Selected session on the new link/listener, silence for 10*T5 after Close. The pure backoff step is checked over the full (initial, multiplier, T5, 0..12 failures) grid. Long outages: 70 refused attempts in a row under three backoff configurations.",
  note="One canonical 64+64-byte session per role on HSMS-SS (every byte offset); on SECS-I (part checks/c11t) 8 cut positions of a canonical block exchange x {close, reset} x refusals x backoff configurations, both roles, same oracle; failed dials fail instantly; timers never tied (E3's job). Trusted: synctest, sim, ref/backoff."),
 "C12": dict(engine="E1-enum + E3-sched + race pass", cat="model_checking", tech=E1 + "; lazy first-use paths: " + E3 + "; supporting free-running -race pass for the memory-model clause",
  text="Exhaustive enumeration, one case per (subject, mutation target): every concrete item type x element counts x every slice-taking constructor shape; secs2.Decode, DecodeHSMSMessage, DecodeHSMSPayload; constructed, derived and re-stamped data messages; control messages. Every slice that went in and every slice/array that came out (incl. spare capacity behind append results) is scribbled over; oracle: byte-identity of a deep transcript of every public accessor/serialiser before and after. Lazy decode/encode happens once whichever of six sharers calls first. Every sharer's serialisation is identical before and after the first lazy decode, also for non-canonical raw bodies. Race pass: 54 subjects x 8 goroutines performing the full transcript as the concurrent first observation under the race detector.",
  note="DecodeOwned* excluded (ownership transfer by contract). The 'without data races' clause has race-detector evidence over sampled schedules only (a cooperative scheduler cannot see memory-model races); the logical at-most-once clause is enumerated sequentially. Exhaustive only over the stated grid."),
 "C16": dict(engine="E1-enum", cat="exploration", tech=E1,
  text="Exhaustive enumeration on the 38 real constructors/shortcuts (incl. invalid byte sizes) of ALL argument lists of length 0,1,2 (thorough: 3 over a sub-alphabet) over a 416-symbol alphabet (every width-boundary value in every Go integer type, float specials, 57 numeric/non-numeric strings, unsupported kinds, named types, slices), compared with ref/clamp (documented outcome: exact, nearest bound, deferred error) and the universal never-wrapped / count / order invariants; 5041 errored items (direct, nested to depth 3, shared, oversize) are Equal to nothing and refused by every message constructor and every send entry point of the test endpoint.",
  note="Exhaustive only over the stated alphabet and list lengths. Where the docs are silent either a deferred error or exactly the listed value is accepted. A typed-nil list child panicking on use is test-pinned library behaviour (counted, not flagged). The live-connection half of 'never reaches the wire' relies on the constructors' refusal (no message object exists to send)."),
 "C19": dict(engine="E2-bubble + E1-enum", cat="model_checking", tech=E2 + "; failure-accounting functions: " + E1,
  text="Explicit-state tree search over every peer script of length <= threshold+2 (thorough +3) over 10 per-round peer / application / third-party actions x threshold {1,2,3} x suppression on/off x passive/active, each replayed on a fresh real hsmsss connection and compared with a reference timeline: exact virtual time of every Linktest.req and of the disconnect, linktest counters, probe frame format, 'no probe within one interval of traffic or while a reply is outstanding'. The two pure decision functions are compared on all 3750 rows of their abstract domain; every history of <= 6 (thorough 8) probe rounds x threshold 1..4 x suppression is folded through a faithful copy of runLinktest's failure branch. Part C: probes of a session re-established after a failed write. Part D: T6 retuned on a live session.",
  note="Bounded script depth and thresholds; no exact frame/timer ties (function level only). Trusted: ref/linktest (from doc comments), synctest, sim."),
})

CHECKS.update({
 "C06": dict(engine="E2-bubble + E1-enum + E3-sched", cat="model_checking", tech=E2 + "; schedule part: " + E3,
  text="Tree search: Selected hsmsss connection (passive/active x host/equipment, two data handlers, T3 3 s), n <= 2 (thorough <= 3) overlapping reply-expected sends; every peer history of length <= 3 (thorough <= 4) over, per open transaction: reply, duplicate reply, odd-function W=0 message, W and non-W primary with colliding system bytes, Reject.req reason {1..5,255}, Select/Deselect/Linktest.rsp with colliding system bytes, ctx cancel; plus unsolicited secondary, T3-1ms, +2ms, peerClose, Close. After every event each call's return value and virtual return time, the per-handler delivery logs and the library's frames are compared with a reference map of open transactions (own reply byte-identical, RejectError reason, ErrT3Timeout at exactly write+T3, ErrConnClosed, ctx error; never (nil,nil); one recipient per inbound data frame). Plus 2^16+10 consecutive system-bytes draws read off the wire. The same for 2000 draws with the counter positioned (build-tag hook) just below 2^24, 2^31 and the 2^32 wrap.",
  note="Depth-bounded; events separated by quiescence (exact ties of reply/T3/cancel are not enumerated by this part). HSMS-SS. The genuine defects this check found are repaired in /repo: a control response colliding with an open data transaction completing it with (nil,nil) (fix: 0542585), the same stray costing the transaction its reply (2f35c30), and a reply that ties with T3 / teardown / cancellation reaching nobody (2cc474c); the last two were found by the E3 part."),
 "C20": dict(engine="E2-bubble + E3-sched", cat="model_checking", tech=E2 + "; schedule part: " + E3,
  text="Tree search: every history of length <= 3 over a 23-symbol alphabet and <= 4 over 14 symbols (thorough deeper), with at most 3 sends: the 5 send entry points, stall+write-timeout and reset-under-blocked-write errors, reply / Reject / cancel / T3, drop, reconnect, refused dials, Deselect/Select, inbound data, malformed frames, Close. At every quiescent point all eight metrics are compared with a reference ledger of the documented per-outcome vectors and with the peer's own count of data frames received over all TCP generations: in-flight >= 0 and equal to waiting sends, Reconnecting > 0 exactly while the backoff loop runs, 0 after Close. A SECS-I ledger (checks/c20t) over histories of peer/application events incl. retransmitted blocks and a send cancelled while its ACK is outstanding.",
  note="Depth-bounded; the E2 parts look at quiescent points, the E3 part (checks/c20s) at every scheduling point of its scenarios (gauge under overlapping completions, reply/T3 tie, overlapping reconnect loops); HSMS-SS by the full alphabet, SECS-I by part checks/c20t (histories <= 3 over 8 events incl. retransmitted blocks); Reconnects() checked for the active role. Trusted: synctest, sim, ledger derived from the doc comments."),
})

CHECKS.update({
 "C17": dict(engine="E2-bubble + E1-enum", cat="model_checking", tech=E2 + "; assembler: explicit-state tree search on the real assembler.accept with an injected clock",
  text="Outbound: every encoded body length 0..733 x role x device ids {0,1,0x7FFF} x header grid sent by a real secs1 connection to an independent SEMI E4 reference peer; every transmission compared byte for byte with ref/e4 (block size <= 244, numbering 1..N, E-bit, R-bit, device id, checksum, concatenated body = SECS-II encoding). The E4 size limit: 32767 blocks sent and numbered, one byte more never reaches the line. Inbound (a): all block histories of depth <= 6/7 over 14 symbols (valid next, duplicate, skipped number, changed stream/function/W/system bytes, wrong device, wrong direction, block 0 with/without E, fresh first block, previous number with E, T4 gap) on the real assembler with an injected clock: exact reference (E4 9.4.4), rule-free justification of every delivery, clean message after every prefix. Inbound (b): line level depth 3/4 over 19 symbols incl. bad checksum, bad length byte, truncated block, ENQ+silence: EOT/ACK/NAK, deliveries, State(), socket stays open.",
  note="Bounded by the stated depths; the receive rule for an out-of-sequence block (abandon the partial, then treat as a first block) is taken from assembler.go's doc comments; no interleaved multi-block transactions. Trusted: ref/e4, peer/e4, synctest, sim."),
 "C18": dict(engine="E2-bubble", cat="model_checking", tech=E2 + " (fault enumeration through a protocol-aware middlebox between two real secs1 endpoints)",
  text="Two real secs1 connections (equipment/master, host/slave) in one bubble joined by a middlebox that forwards line units (handshake characters / block transmissions) under a fault plan: 54 scenarios {E->H, H->E, both at once} x {1,2,3 blocks} x RTY {0,1,3} x W, each sending two token-carrying messages; all single-fault plans over the first 12 units per direction (drop, replace by ENQ/EOT/ACK/NAK/0x00, flip a header/body/checksum byte, truncate, delay T1+d / T2+d) and all two-fault plans on a scenario subset. Oracle: every send that returned nil is delivered exactly once and intact, in order per direction; nothing delivered twice or altered; each block attempted at most RTY+1 times, then the send fails and the link recovers; contention resolves master-first; every call returns before the virtual horizon.",
  note="Two-fault plans exclude forged ACKs and T2 delays (a stale ACK is undetectable by E4 itself) and length-byte corruption; no overlapping writers on one connection (a sync.Mutex wait is not a durable block under synctest). A violation is reported only if it reproduces 3/3."),
})

CHECKS.update({
 "C07": dict(engine="E2-bubble + E3-sched", cat="model_checking", tech=E2 + "; schedule part: " + E3,
  text="Exhaustive enumeration of the stated finite families of histories on a real hsmsss connection in virtual time: every not-selected situation (13 active / 11 passive: never opened, connecting, refused dial, connected-not-selected, deselected, select rejected, separated, T6/T7 expiry, in backoff, between generations, closed, reopened) x every data-sending entry point; every connected-not-selected situation x inbound data frames over kinds, session ids and system bytes; every <= 2-cut (thorough <= 3) segmentation of the select-plus-data streams incl. simultaneous select; the queued-behind-a-blocked-write-then-deselected scenario. Bursts of 3..200 (thorough 1000) data frames in one segment at a not-selected library (peer reading / window closed): one Reject.req(4) each. Each step compared with exact expected frames, errors, drop-counter deltas, deliveries and link state.",
  note="Exhaustive only over the listed histories, roles and one timer configuration; the E3 part (checks/c07s) adds the schedule dimension: data pipelined behind Select.req/Select.rsp (3 write groupings x 2 roles) and a data send racing Deselect/Select/Separate.req (sync, async), every schedule with <= 1 departure (thorough 2) around two canonical orders (default; library-first with sticky departures), State() must not leave Selected without a cause, exactly one of {frame on the wire, nil} / {nothing on the wire, not-selected error, one drop}. Trusted: synctest, sim, expected frames written from E37."),
 "C14": dict(engine="E1-enum + race pass", cat="exploration", tech=E1 + "; resource families in ulimit-bounded worker processes; supporting -race pass",
  text="Exhaustive enumeration of all token sequences of length <= 4 (quick) / <= 5 plus type-led length 6 (thorough) over a 26-token SML alphabet and all byte strings of length <= 2 (256 values) and 3 (64 bytes), plain and behind 'S1F1 W <', through every public parse entry point, strict and non-strict: no panic; messages xor error; message validity; ParseError offset in range with line/column recomputed from the input; reused parser equals fresh parser. Resource families (nesting depth to 4e6, size hints to 2^63 for all 16 item types, unterminated strings/numbers/comments, n messages) run one point per worker process under ulimit -v: exit status 0, allocation bound, at most quadratic growth of TotalAlloc/Mallocs. Shared state: go/ast scan of package-level vars, concurrent == sequential over a 227-text corpus, free-running -race pass.",
  note="Exhaustive only over the stated alphabets and family points; resource use judged through deterministic proxies (allocation counters, exit status), CPU-time horizon 60 s doubled once, never a wall-clock verdict; allocation bound 1 MiB + 64*len + len^2. The three genuine defects this check found (size-hint allocation, unbounded recursion, panic after a closing quote) are repaired in /repo (fix: commits f8f2844, c5c42c9, d3552cd)."),
})

PENDING = {}


def main():
    reg = {}
    for d in sorted(os.listdir(os.path.join(ROOT, "checks"))):
        p = os.path.join(ROOT, "checks", d, "check.json")
        if os.path.exists(p):
            reg.update(json.load(open(p)))
    reg.update(json.load(open(os.path.join(ROOT, "checks.json"))))
    checks = []
    for cid in ALL:
        if cid not in CHECKS or cid not in reg:
            continue
        c = CHECKS[cid]
        checks.append({
            "property_id": cid,
            "quick_cmd": "./vcheck run %s --tier quick" % cid,
            "thorough_cmd": "./vcheck run %s --tier thorough" % cid,
            "evidence_file": "/verif/evidence/%s.json" % cid,
            "replay_cmd_template": "./vcheck replay {path}",
            "engine": c["engine"],
            "level_claimed": {"category": c["cat"], "text": c["text"], "design_ref": "DESIGN.md section 5 " + cid},
            "level_note": c["note"],
            "technique": c["tech"],
        })
    claimed = {c["property_id"] for c in checks}
    na = [{"property_id": cid, "reason": PENDING.get(cid, "check under construction in this round (machinery is being built; not yet registered)")}
          for cid in ALL if cid not in claimed]
    m = {
        "version": 1,
        "setup_cmd": "./vcheck setup",
        "hooks": {
            "guard": "verif",
            "enable": "go1.26 test -tags verif -overlay work/overlay.json — export files under /verif/hooks/<pkg>/ (//go:build verif; those that name unexported library code carry an opt-out tag nohook_<x> that vcheck applies, with a HOOK-UNAVAILABLE line and a note in the evidence, when a changed tree no longer compiles against them) are ADDED to the library packages through the build overlay, and for engine E3 the overlay additionally substitutes instrumented copies generated by cmd/vinstr from the current /repo tree; /repo itself carries no hook code",
            "baseline_off_cmd": "cd /repo && GOFLAGS=-mod=mod GOPROXY=off GOTOOLCHAIN=local go1.26 test -vet=off -count=1 -timeout 25m ./...",
            "source_commits": [],
            "add_only": True,
        },
        "engines": [
            {"name": "E1-enum", "path": "vfw, gen, ref/*", "serves_properties": ["C01", "C02", "C03", "C04", "C12", "C13", "C14", "C15", "C16", "C11", "C19"],
             "kind_free_text": "bounded-exhaustive enumeration of inputs / operation sequences of the real sequential API against boring reference models"},
            {"name": "E2-bubble", "path": "e2, sim, peer", "serves_properties": ["C04", "C06", "C07", "C08", "C09", "C10", "C11", "C17", "C18", "C19", "C20"],
             "kind_free_text": "explicit-state search over environment event histories against a real connection inside a testing/synctest bubble (virtual time, in-memory network owned by the harness)"},
            {"name": "E3-sched", "path": "e3, shim/*, cmd/vinstr", "serves_properties": ["C05", "C06", "C07", "C08", "C09", "C10", "C12", "C20"],
             "kind_free_text": "hand-rolled stateless model checker: build-time AST instrumentation (go build -overlay) puts a scheduling point before every synchronisation operation; cooperative scheduler + departure-bounded DFS; replayable choice lists"},
        ],
        "checks": checks,
        "not_applicable": na,
        "notes": "All checks rebuild from /repo's working tree on every invocation (module replace => /repo + overlay). VERIF_REPO=<dir> runs any check against another checkout (used only to try property-breaking changes; output goes to work/alt-*).",
    }
    with open(os.path.join(ROOT, "MANIFEST.json"), "w") as f:
        json.dump(m, f, indent=1)
    print("MANIFEST.json: %d checks, %d not_applicable" % (len(checks), len(na)))


if __name__ == "__main__":
    main()
