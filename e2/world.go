// Package e2 is the bubble harness of engine E2/E3: one real hsmsss (or secs1)
// connection inside a testing/synctest bubble over the sim network, a scripted peer, and
// observation helpers. One execution = one bubble; the global timer pool of the library
// is drained (two GCs) between bubbles.
package e2

import (
	"context"
	"fmt"
	"regexp"
	"runtime"
	"strings"
	"sync"
	"testing"
	"testing/synctest"
	"time"

	"github.com/arloliu/go-secs/v2/hsms"
	"github.com/arloliu/go-secs/v2/hsmsss"
	"github.com/arloliu/go-secs/v2/logger"

	"verif/peer"
	"verif/sim"
)

// Quiet is a logger that discards everything (and counts warnings).
type Quiet struct {
	mu    sync.Mutex
	Warns []string
}

func (q *Quiet) Debug(string, ...any) {}
func (q *Quiet) Info(string, ...any)  {}
func (q *Quiet) Warn(msg string, _ ...any) {
	q.mu.Lock()
	q.Warns = append(q.Warns, msg)
	q.mu.Unlock()
}
func (q *Quiet) Error(string, ...any)          {}
func (q *Quiet) Fatal(string, ...any)          {}
func (q *Quiet) With(...any) logger.Logger     { return q }
func (q *Quiet) Level() logger.LogLevel        { return 0 }
func (q *Quiet) SetLevel(level logger.LogLevel) {}

// StateChange is one notification.
type StateChange struct {
	Prev, Next hsms.ConnState
	At         time.Duration
}

// Delivery is one data-message handler invocation.
type Delivery struct {
	Msg *hsms.DataMessage
	At  time.Duration
}

// Opts configures the connection under test.
type Opts struct {
	Active   bool
	Equip    bool
	Conn     []hsms.ConnOption
	Extra    []hsmsss.Option
	NoHandle bool // do not register the data handler
}

// World is one execution's universe.
type World struct {
	T    *testing.T
	Net  *sim.Net
	C    hsmsss.Connection
	Log  *Quiet
	Peer *sim.Conn // current harness end (nil before connect)
	prs  peer.Parser

	mu        sync.Mutex
	Frames    []peer.Frame // every frame read from the library so far (all generations)
	States    []StateChange
	Delivered []Delivery
	AsyncErrs []error
	Opened    bool
	closed    bool
	leak      string
	// OnLeak is called (inside the bubble) when library goroutines survive Close and the
	// grace period; it should record the violation and abort the shard (vfw.Ctx.Abort).
	OnLeak func(stacks string)
}

var bubbleMu sync.Mutex

// OnWedge, when set, is called from outside the bubble with a dump of all goroutines if
// one execution has made no progress for WedgeAfter of REAL time (three orders of
// magnitude above the cost of an execution; a generous horizon, not a timing oracle).
var OnWedge func(stacks string)

// OnDeadlock, when set, is called (outside the bubble) when synctest reports that every
// goroutine of the bubble is durably blocked with no timer pending while the harness
// still waits: the library has deadlocked. The hook should record the violation and
// abort the shard (the blocked goroutines can never be cleaned up).
var OnDeadlock func(report string)

// WedgeAfter is the watchdog horizon.
var WedgeAfter = 240 * time.Second

// Run executes f inside a fresh bubble and drains the library's timer pool afterwards.
// It returns a non-empty string if library goroutines were still alive when f (and the
// automatic cleanup) finished — the caller decides what that means.
func Run(t *testing.T, f func(w *World)) (leak string) {
	bubbleMu.Lock()
	defer bubbleMu.Unlock()
	var w *World
	// Watchdog (real time, outside the bubble): an execution normally takes milliseconds.
	// If the bubble makes no progress for WedgeAfter (a library goroutine spinning, or
	// blocked in a way that is neither runnable nor durably blocked, so that virtual time
	// cannot advance), the execution can never finish; OnWedge records it and ends the shard.
	finished := make(chan struct{})
	defer close(finished)
	if onWedge := OnWedge; onWedge != nil {
		go func() {
			tm := time.NewTimer(WedgeAfter)
			defer tm.Stop()
			select {
			case <-finished:
			case <-tm.C:
				buf := make([]byte, 1<<20)
				n := runtime.Stack(buf, true)
				onWedge(string(buf[:n]))
			}
		}()
	}
	// synctest panics "deadlock: all goroutines in bubble are blocked" when the harness waits
	// (for quiescence or for virtual time) while no goroutine can ever run again and no timer
	// is pending: a call the harness is waiting for can never return.
	defer func() {
		if r := recover(); r != nil {
			if msg := fmt.Sprint(r); strings.Contains(msg, "deadlock") && OnDeadlock != nil {
				buf := make([]byte, 1<<20)
				n := runtime.Stack(buf, true)
				OnDeadlock(msg + "\n" + string(buf[:n]))
			}
			panic(r)
		}
	}()
	synctest.Test(t, func(t *testing.T) {
		w = &World{T: t, Log: &Quiet{}}
		w.Net = sim.New()
		f(w)
		w.Cleanup()
	})
	runtime.GC()
	runtime.GC()
	return w.leak
}

// Settle waits until every goroutine in the bubble is durably blocked.
func (w *World) Settle() { synctest.Wait() }

// Advance lets d of virtual time pass (every timer due fires in order) and settles.
func (w *World) Advance(d time.Duration) {
	time.Sleep(d)
	synctest.Wait()
}

// Now is the virtual time since the execution began.
func (w *World) Now() time.Duration { return w.Net.Since() }

// NewConn builds (but does not open) the connection under test.
func (w *World) NewConn(o Opts) {
	opts := []hsmsss.Option{hsmsss.WithDialer(w.Net.Dial), hsmsss.WithListener(w.Net.Listen)}
	if o.Active {
		opts = append(opts, hsmsss.WithActive())
	} else {
		opts = append(opts, hsmsss.WithPassive())
	}
	if o.Equip {
		opts = append(opts, hsmsss.WithEquipRole())
	} else {
		opts = append(opts, hsmsss.WithHostRole())
	}
	co := append([]hsms.ConnOption{hsms.WithLogger(w.Log), hsms.WithAsyncSendErrorHandler(func(_ hsms.Message, err error) {
		w.mu.Lock()
		w.AsyncErrs = append(w.AsyncErrs, err)
		w.mu.Unlock()
	})}, o.Conn...)
	for _, c := range co {
		opts = append(opts, hsmsss.WithConnectionOption(c))
	}
	opts = append(opts, o.Extra...)
	cfg, err := hsmsss.NewConfig("127.0.0.1", 5000, opts...)
	if err != nil {
		panic(fmt.Sprintf("e2: NewConfig: %v", err))
	}
	c, err := hsmsss.New(cfg)
	if err != nil {
		panic(fmt.Sprintf("e2: New: %v", err))
	}
	w.C = c
	c.AddConnStateChangeHandler(func(prev, next hsms.ConnState) {
		w.mu.Lock()
		w.States = append(w.States, StateChange{prev, next, w.Now()})
		w.mu.Unlock()
	})
	if !o.NoHandle {
		c.AddDataMessageHandler(func(m *hsms.DataMessage, _ hsms.SECS2Endpoint) {
			w.mu.Lock()
			w.Delivered = append(w.Delivered, Delivery{m, w.Now()})
			w.mu.Unlock()
		})
	}
}

// Open opens in the background and settles.
func (w *World) Open() error {
	err := w.C.Open(context.Background(), hsms.OpenBackground)
	if err == nil {
		w.Opened = true
	}
	synctest.Wait()
	return err
}

// AttachPeer picks up the harness end of the connection: for an active library the
// accepted dial, for a passive one a fresh connect. Returns false if there is none.
func (w *World) AttachPeer(active bool) bool {
	var p *sim.Conn
	if active {
		p = w.Net.TakePeer()
	} else {
		p = w.Net.Connect()
	}
	if p == nil {
		return false
	}
	w.Peer = p
	w.prs = peer.Parser{}
	synctest.Wait()
	return true
}

// Send writes a frame (or raw bytes) from the peer and settles.
func (w *World) Send(f peer.Frame) { w.SendRaw(f.Bytes()) }

// SendRaw writes raw bytes from the peer and settles.
func (w *World) SendRaw(b []byte) {
	if w.Peer != nil {
		_, _ = w.Peer.Write(b)
	}
	synctest.Wait()
}

// Read drains what the library wrote and returns the newly completed frames.
func (w *World) Read() []peer.Frame {
	if w.Peer == nil {
		return nil
	}
	fs := w.prs.Feed(w.Peer.Drain())
	w.mu.Lock()
	w.Frames = append(w.Frames, fs...)
	w.mu.Unlock()
	return fs
}

// ParserErr reports a framing error in what the library wrote.
func (w *World) ParserErr() error { return w.prs.Err }

// PartialOut returns bytes of an incomplete frame written by the library.
func (w *World) PartialOut() []byte { return w.prs.Rest() }

// Establish opens the connection and brings it to Selected the way the role requires:
// passive: the peer connects and sends Select.req; active: the peer answers the
// library's Select.req with status 0. It returns the frames exchanged on the way.
func (w *World) Establish(o Opts) error {
	if err := w.Open(); err != nil {
		return err
	}
	if !w.AttachPeer(o.Active) {
		return fmt.Errorf("e2: no peer connection")
	}
	return w.SelectOnPeer(o.Active)
}

// SelectOnPeer performs the select handshake on the current peer connection.
func (w *World) SelectOnPeer(active bool) error {
	if active {
		fs := w.Read()
		if len(fs) != 1 || fs[0].SType != peer.SSelectReq {
			return fmt.Errorf("e2: expected one Select.req from the active library, got %v", fs)
		}
		w.Send(peer.Ctrl(peer.SSelectRsp, fs[0].Session, 0, 0, fs[0].Sys))
	} else {
		w.Send(peer.Ctrl(peer.SSelectReq, 0xFFFF, 0, 0, 0x7E000001))
		fs := w.Read()
		if len(fs) != 1 || fs[0].SType != peer.SSelectRsp || fs[0].B3 != 0 {
			return fmt.Errorf("e2: expected Select.rsp(0) from the passive library, got %v", fs)
		}
	}
	if st := w.C.State(); st != hsms.SelectedState {
		return fmt.Errorf("e2: state after select handshake is %v", st)
	}
	return nil
}

// Go runs fn on its own bubble goroutine and returns a handle to its completion.
func (w *World) Go(fn func()) *Call {
	c := &Call{done: make(chan struct{})}
	go func() {
		defer close(c.done)
		defer func() {
			if r := recover(); r != nil {
				c.Panic = fmt.Sprint(r)
			}
		}()
		c.Start = w.Now()
		fn()
		c.End = w.Now()
	}()
	return c
}

// Call is an API call running on its own goroutine.
type Call struct {
	done       chan struct{}
	Start, End time.Duration
	Panic      string
}

// Done reports whether the call has returned (non-blocking).
func (c *Call) Done() bool {
	select {
	case <-c.done:
		return true
	default:
		return false
	}
}

// Snapshot copies the observation logs.
func (w *World) Snapshot() (states []StateChange, delivered []Delivery, asyncErrs []error) {
	w.mu.Lock()
	defer w.mu.Unlock()
	return append([]StateChange(nil), w.States...), append([]Delivery(nil), w.Delivered...), append([]error(nil), w.AsyncErrs...)
}

// Close closes the connection under test (idempotent for the harness).
func (w *World) Close() error {
	w.closed = true
	err := w.C.Close()
	synctest.Wait()
	return err
}

var stackBuf []byte // reused (one bubble at a time per process)

var libFrame = regexp.MustCompile(`github\.com/arloliu/go-secs/v2/(hsms|hsmsss|secs1|internal)[./]`)

// LibGoroutines returns the stacks of goroutines that have a library frame on them
// (excluding the calling goroutine).
func LibGoroutines() []string {
	if stackBuf == nil {
		stackBuf = make([]byte, 1<<20)
	}
	buf := stackBuf
	n := runtime.Stack(buf, true)
	var out []string
	for i, g := range strings.Split(string(buf[:n]), "\n\n") {
		if i == 0 {
			continue // the caller
		}
		if libFrame.MatchString(g) {
			out = append(out, g)
		}
	}
	return out
}

// Cleanup makes sure the bubble can end: closes the connection and peer sockets, lets
// pending timers fire, and records any library goroutine that survives.
func (w *World) Cleanup() {
	if w.C != nil && w.Opened && !w.closed {
		_ = w.C.Close()
	}
	synctest.Wait()
	if w.Peer != nil {
		_ = w.Peer.Close()
	}
	for p := w.Net.TakePeer(); p != nil; p = w.Net.TakePeer() {
		_ = p.Close()
	}
	w.Net.ClosePeerEnds()
	synctest.Wait()
	if gs := LibGoroutines(); len(gs) > 0 {
		// give abandoned stragglers their documented bound (close timeout) to finish
		time.Sleep(2 * time.Minute)
		synctest.Wait()
		if gs = LibGoroutines(); len(gs) > 0 {
			w.leak = strings.Join(gs, "\n\n")
			// the bubble can never end with these goroutines blocked: hand over to the check
			// (which records the violation and aborts the shard) before synctest panics.
			if w.OnLeak != nil {
				w.OnLeak(w.leak)
			}
		}
	}
}
