#!/bin/bash
# usage: teeth/C06/try-keys.sh <CHECK-ID> <patch.diff> [tier] [ignored-key ...]
# Like teeth/try.sh (scratch worktree of /repo + VERIF_REPO run + cleanup; /repo is never touched),
# but prints every violation KEY and counts the mutation as DETECTED only if a key other than the
# ignored ones (genuine findings of the unchanged tree, e.g. nil-nil:control-rsp-collision) is reported.
set -u
id="$1"; patch="$(readlink -f "$2")"; tier="${3:-quick}"; shift; shift; shift || true
ignored=("$@")
wt="/tmp/wt-teeth-$id-$$"
git -C /repo worktree add -q --detach "$wt" || exit 2
alt="/verif/work/alt-$(python3 -c "import hashlib,sys;print(hashlib.sha256(sys.argv[1].encode()).hexdigest()[:10])" "$wt")"
cleanup() { git -C /repo worktree remove --force "$wt" >/dev/null 2>&1; rm -rf "$alt" 2>/dev/null; }
trap cleanup EXIT
if ! git -C "$wt" apply "$patch"; then echo "TEETH $id $(basename "$patch"): PATCH DOES NOT APPLY"; exit 2; fi
out=$(cd /verif && VERIF_REPO="$wt" ./vcheck run "$id" --tier "$tier" 2>&1)
rc=$?
echo "$out" | grep -E "^(C[0-9]+ tier|HARNESS)" | head -3
new=0
for f in "$alt"/replays/"$id"/*.json; do
  [ -e "$f" ] || continue
  key=$(python3 -c "import json,sys;d=json.load(open(sys.argv[1]));print(d['key'])" "$f")
  desc=$(python3 -c "import json,sys;d=json.load(open(sys.argv[1]));print(d['desc'][:260].replace('\n',' '))" "$f")
  skip=0
  for ig in "${ignored[@]:-}"; do [ "$key" = "$ig" ] && skip=1; done
  if [ $skip -eq 1 ]; then echo "  (finding of the unchanged tree) $key"; else echo "  KEY $key :: $desc"; new=$((new+1)); fi
done
if [ $rc -eq 1 ] && [ $new -gt 0 ]; then echo "TEETH $id $(basename "$patch"): DETECTED ($new new key(s))"; exit 0; fi
echo "TEETH $id $(basename "$patch"): NOT DETECTED (rc=$rc, new keys=$new)"; exit 1
