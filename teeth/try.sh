#!/bin/bash
# usage: teeth/try.sh <CHECK-ID> <patch.diff> [tier]   — apply a property-breaking patch to a scratch
# worktree of /repo, run the check against it (VERIF_REPO), print the verdict, clean up.
# /repo itself is never touched. Exit 0 if the check reported a VIOLATION (mutation detected).
set -u
id="$1"; patch="$(readlink -f "$2")"; tier="${3:-quick}"
wt="/tmp/wt-teeth-$$"
git -C /repo worktree add -q --detach "$wt" || exit 2
cleanup() { git -C /repo worktree remove --force "$wt" >/dev/null 2>&1; rm -rf "$alt" 2>/dev/null; }
alt="/verif/work/alt-$(python3 -c "import hashlib,sys;print(hashlib.sha256(sys.argv[1].encode()).hexdigest()[:10])" "$wt")"
trap cleanup EXIT
if ! git -C "$wt" apply "$patch" 2>/dev/null && ! git -C "$wt" apply -3 "$patch" >/dev/null 2>&1; then echo "TEETH $id $(basename "$patch"): PATCH DOES NOT APPLY"; exit 2; fi
out=$(cd /verif && VERIF_REPO="$wt" ./vcheck run "$id" --tier "$tier" 2>&1)
rc=$?
echo "$out" | grep -E "^(C[0-9]+ tier|VIOLATION|HARNESS|KNOWN)" | head -${TEETH_LINES:-6}
echo "$out" | grep -A1 "^VIOLATION" | grep "^  " | head -2
if [ $rc -eq 1 ]; then echo "TEETH $id $(basename "$patch"): DETECTED"; exit 0; fi
echo "TEETH $id $(basename "$patch"): NOT DETECTED (rc=$rc)"; exit 1
