// Package vfw is the shared plumbing of every check: shard selection, counters,
// samples, violations and the partial-result file the driver (vcheck) merges into
// /verif/evidence/<id>.json.
package vfw

import (
	"crypto/sha256"
	"encoding/hex"
	"encoding/json"
	"fmt"
	"os"
	"sort"
	"strconv"
	"strings"
	"sync"
	"testing"
	"time"
)

// Violation is one counterexample. Key is a stable signature (used to match the
// known-findings file); Replay is the self-describing case.
type Violation struct {
	Key    string `json:"key"`
	Desc   string `json:"desc"`
	Replay any    `json:"replay"`
}

// Partial is what one shard writes.
type Partial struct {
	Property    string         `json:"property"`
	Level       string         `json:"level"`
	Rule        string         `json:"rule"`
	Assumptions []string       `json:"assumptions"`
	Evaluations int64          `json:"evaluations"`
	Nontrivial  int64          `json:"nontrivial"`
	States      int64          `json:"states"`
	Transitions int64          `json:"transitions"`
	Traces      int64          `json:"traces"`
	Samples     []any          `json:"samples"`
	Violations  []Violation    `json:"violations"`
	Exhaustive  bool           `json:"exhaustive"`
	Extra       map[string]any `json:"extra"`
	Counters    map[string]int64 `json:"counters"`
	Outcomes    map[string]int64 `json:"outcomes"`
	WallS       float64        `json:"wall_s"`
	Harness     []string       `json:"harness_errors"`
}

// Ctx is handed to a check body.
type Ctx struct {
	T        *testing.T
	Property string
	Tier     string // quick | thorough
	Seed     int64
	Shard    int
	Shards   int
	Replay   json.RawMessage // non-nil: replay just this case
	Deadline time.Time

	mu        sync.Mutex
	p         Partial
	maxSample int
	maxViol   int
	cut       bool
	start     time.Time
	seq       int64
}

// Thorough reports whether the thorough tier was requested.
func (c *Ctx) Thorough() bool { return c.Tier == "thorough" }

// Mine partitions an enumeration over shards by index.
func (c *Ctx) Mine(i int) bool { return c.Shards <= 1 || i%c.Shards == c.Shard }

// Next returns true if the next enumerated case (in a deterministic global
// enumeration order shared by all shards) belongs to this shard.
func (c *Ctx) Next() bool {
	i := c.seq
	c.seq++
	return c.Shards <= 1 || int(i%int64(c.Shards)) == c.Shard
}

// Level / Rule / Assume describe the run in the evidence.
func (c *Ctx) Level(l string) { c.p.Level = l }
func (c *Ctx) Rule(r string) {
	if c.p.Rule == "" {
		c.p.Rule = r
	} else if !strings.Contains(c.p.Rule, r) {
		c.p.Rule += " | " + r
	}
}
func (c *Ctx) Assume(a ...string) { c.p.Assumptions = append(c.p.Assumptions, a...) }

// Count records n evaluated cases, nt of them non-trivial.
func (c *Ctx) Count(n, nt int64) {
	c.mu.Lock()
	c.p.Evaluations += n
	c.p.Nontrivial += nt
	c.mu.Unlock()
}

// Case records one evaluated case.
func (c *Ctx) Case(nontrivial bool) {
	c.mu.Lock()
	c.p.Evaluations++
	if nontrivial {
		c.p.Nontrivial++
	}
	c.mu.Unlock()
}

// Graph adds explored states / transitions / executions replayed on the implementation.
func (c *Ctx) Graph(states, transitions, traces int64) {
	c.mu.Lock()
	c.p.States += states
	c.p.Transitions += transitions
	c.p.Traces += traces
	c.mu.Unlock()
}

// Add bumps a named counter (merged by summing).
func (c *Ctx) Add(name string, n int64) {
	c.mu.Lock()
	if c.p.Counters == nil {
		c.p.Counters = map[string]int64{}
	}
	c.p.Counters[name] += n
	c.mu.Unlock()
}

// Outcome records one observed outcome class (merged by summing; the number of
// distinct classes is reported so that vacuous exploration is visible).
func (c *Ctx) Outcome(name string) {
	c.mu.Lock()
	if c.p.Outcomes == nil {
		c.p.Outcomes = map[string]int64{}
	}
	c.p.Outcomes[name]++
	c.mu.Unlock()
}

// Set records an extra evidence key (last writer of a shard wins; driver keeps shard 0's
// value unless the value is numeric, in which case it sums).
func (c *Ctx) Set(name string, v any) {
	c.mu.Lock()
	if c.p.Extra == nil {
		c.p.Extra = map[string]any{}
	}
	c.p.Extra[name] = v
	c.mu.Unlock()
}

// Sample keeps up to a few written-out cases.
func (c *Ctx) Sample(v any) {
	c.mu.Lock()
	if len(c.p.Samples) < c.maxSample {
		c.p.Samples = append(c.p.Samples, v)
	}
	c.mu.Unlock()
}

// WantSample reports whether more samples are wanted (to avoid building them).
func (c *Ctx) WantSample() bool {
	c.mu.Lock()
	defer c.mu.Unlock()
	return len(c.p.Samples) < c.maxSample
}

// Violate records a counterexample.
func (c *Ctx) Violate(key, desc string, replay any) {
	c.mu.Lock()
	defer c.mu.Unlock()
	for _, v := range c.p.Violations {
		if v.Key == key {
			return // one per signature per shard
		}
	}
	if len(c.p.Violations) < c.maxViol {
		c.p.Violations = append(c.p.Violations, Violation{Key: key, Desc: desc, Replay: replay})
	}
}

// NViol returns the number of recorded violations.
func (c *Ctx) NViol() int {
	c.mu.Lock()
	defer c.mu.Unlock()
	return len(c.p.Violations)
}

// HarnessError records a failure of the machinery itself (never a VIOLATION).
func (c *Ctx) HarnessError(format string, a ...any) {
	c.mu.Lock()
	c.p.Harness = append(c.p.Harness, fmt.Sprintf(format, a...))
	c.mu.Unlock()
}

// Expired reports whether the internal deadline was hit; the first hit marks the
// run non-exhaustive.
func (c *Ctx) Expired() bool {
	if time.Now().After(c.Deadline) {
		c.mu.Lock()
		c.cut = true
		c.mu.Unlock()
		return true
	}
	return false
}

// Incomplete marks the run as not exhaustive (a cap was hit).
func (c *Ctx) Incomplete(why string) {
	c.mu.Lock()
	c.cut = true
	if c.p.Extra == nil {
		c.p.Extra = map[string]any{}
	}
	c.p.Extra["cap_hit"] = why
	c.mu.Unlock()
}

// Hash is a short stable hash for keys.
func Hash(parts ...any) string {
	h := sha256.New()
	for _, p := range parts {
		fmt.Fprintf(h, "%v\x00", p)
	}
	return hex.EncodeToString(h.Sum(nil))[:12]
}

func envInt(name string, def int) int {
	if s := os.Getenv(name); s != "" {
		if v, err := strconv.Atoi(s); err == nil {
			return v
		}
	}
	return def
}

// Main runs a check body under the environment the driver prepared and writes the
// shard's partial result to $VERIF_OUT.
func Main(t *testing.T, property string, body func(c *Ctx)) {
	c := &Ctx{T: t, Property: property, maxSample: 6, maxViol: 20, start: time.Now()}
	c.Tier = os.Getenv("VERIF_TIER")
	if c.Tier == "" {
		c.Tier = "quick"
	}
	c.Seed = int64(envInt("VERIF_SEED", 0))
	c.Shard = envInt("VERIF_SHARD", 0)
	c.Shards = envInt("VERIF_SHARDS", 1)
	budget := envInt("VERIF_BUDGET_S", 0)
	if budget == 0 {
		budget = 240
		if c.Tier == "thorough" {
			budget = 1500
		}
	}
	c.Deadline = time.Now().Add(time.Duration(budget) * time.Second)
	if rp := os.Getenv("VERIF_REPLAY"); rp != "" {
		b, err := os.ReadFile(rp)
		if err != nil {
			t.Fatalf("replay file: %v", err)
		}
		var f struct {
			Replay json.RawMessage `json:"replay"`
		}
		if err := json.Unmarshal(b, &f); err != nil || f.Replay == nil {
			t.Fatalf("replay file %s: bad format: %v", rp, err)
		}
		c.Replay = f.Replay
	}
	c.p.Property = property
	c.p.Level = "exploration"
	func() {
		defer func() {
			if r := recover(); r != nil {
				c.HarnessError("check body panicked: %v", r)
			}
		}()
		body(c)
	}()
	c.p.Exhaustive = !c.cut
	c.p.WallS = time.Since(c.start).Seconds()
	sort.Slice(c.p.Violations, func(i, j int) bool { return c.p.Violations[i].Key < c.p.Violations[j].Key })
	out := os.Getenv("VERIF_OUT")
	b, err := json.Marshal(&c.p)
	if err != nil {
		t.Fatalf("marshal partial: %v", err)
	}
	if out == "" {
		// direct `go test` use: print a summary
		t.Logf("partial: %s", trunc(string(b), 4000))
		if len(c.p.Violations) > 0 || len(c.p.Harness) > 0 {
			t.Fail()
		}
		return
	}
	if err := os.WriteFile(out, b, 0o644); err != nil {
		t.Fatalf("write partial: %v", err)
	}
}

// Abort writes the partial result as it stands (marked non-exhaustive) and ends the
// process. Used when an execution has wedged the process in a way the check has already
// recorded as a violation (e.g. leaked library goroutines keep a synctest bubble from
// ending), so the remaining cases of this shard cannot be explored.
func (c *Ctx) Abort(why string) {
	c.mu.Lock()
	c.cut = true
	if c.p.Extra == nil {
		c.p.Extra = map[string]any{}
	}
	c.p.Extra["aborted"] = why
	c.p.Exhaustive = false
	c.p.WallS = time.Since(c.start).Seconds()
	b, _ := json.Marshal(&c.p)
	c.mu.Unlock()
	if out := os.Getenv("VERIF_OUT"); out != "" {
		_ = os.WriteFile(out, b, 0o644)
	} else {
		fmt.Fprintf(os.Stderr, "aborted: %s\npartial: %s\n", why, trunc(string(b), 4000))
	}
	os.Exit(0)
}

func trunc(s string, n int) string {
	if len(s) > n {
		return s[:n] + "..."
	}
	return s
}
