// Package e5 is a deliberately boring reference model of SEMI E5 §9 item encoding,
// written from the standard's text (format byte = 6-bit format code + 2-bit number of
// length bytes; 1..3 big-endian length bytes holding the payload byte count — or the
// number of children for a list; big-endian two's-complement / IEEE-754 payload).
// It shares no code with the implementation and is the oracle for C01/C02/C12/C17.
package e5

import (
	"encoding/binary"
	"math"
)

// Format codes (octal in the standard).
const (
	List    = 0o00
	Binary  = 0o10
	Boolean = 0o11
	ASCII   = 0o20
	JIS8    = 0o21
	Local   = 0o22
	I8      = 0o30
	I1      = 0o31
	I2      = 0o32
	I4      = 0o34
	F8      = 0o40
	F4      = 0o44
	U8      = 0o50
	U1      = 0o51
	U2      = 0o52
	U4      = 0o54
)

// MaxLen is the largest value a 3-byte length field can hold.
const MaxLen = 1<<24 - 1

// Val is a logical item value.
type Val struct {
	FC   byte
	Raw  []byte    // Binary/ASCII/JIS8 payload; Local: payload including the 2-byte header
	Bool []bool    // Boolean
	I    []int64   // I1..I8
	U    []uint64  // U1..U8
	F    []float64 // F8 values, or F4 values widened exactly
	Kids []*Val    // List
}

// Width returns the element width of a numeric format code, 0 otherwise.
func Width(fc byte) int {
	switch fc {
	case I1, U1:
		return 1
	case I2, U2:
		return 2
	case I4, U4, F4:
		return 4
	case I8, U8, F8:
		return 8
	}
	return 0
}

// Known reports whether fc is one of the 16 defined format codes.
func Known(fc byte) bool {
	switch fc {
	case List, Binary, Boolean, ASCII, JIS8, Local, I1, I2, I4, I8, U1, U2, U4, U8, F4, F8:
		return true
	}
	return false
}

// TypeName gives the library's Type() string for a format code.
func TypeName(fc byte) string {
	switch fc {
	case List:
		return "list"
	case Binary:
		return "binary"
	case Boolean:
		return "boolean"
	case ASCII:
		return "ascii"
	case JIS8:
		return "jis8"
	case Local:
		return "localized_str"
	case I1:
		return "i1"
	case I2:
		return "i2"
	case I4:
		return "i4"
	case I8:
		return "i8"
	case U1:
		return "u1"
	case U2:
		return "u2"
	case U4:
		return "u4"
	case U8:
		return "u8"
	case F4:
		return "f4"
	case F8:
		return "f8"
	}
	return "?"
}

// Count is the logical element count (Size()).
func (v *Val) Count() int {
	switch v.FC {
	case List:
		return len(v.Kids)
	case Binary, ASCII, JIS8, Local:
		// the library documents Size() of a localized string as the payload byte count
		// including the 2-byte header
		return len(v.Raw)
	case Boolean:
		return len(v.Bool)
	case I1, I2, I4, I8:
		return len(v.I)
	case U1, U2, U4, U8:
		return len(v.U)
	case F4, F8:
		return len(v.F)
	}
	return 0
}

// header: minimal number of length bytes.
func header(dst []byte, fc byte, n int) []byte {
	switch {
	case n <= 0xFF:
		return append(dst, fc<<2|1, byte(n))
	case n <= 0xFFFF:
		return append(dst, fc<<2|2, byte(n>>8), byte(n))
	default:
		return append(dst, fc<<2|3, byte(n>>16), byte(n>>8), byte(n))
	}
}

// Encode appends the E5 encoding of v.
func Encode(dst []byte, v *Val) []byte {
	switch v.FC {
	case List:
		dst = header(dst, List, len(v.Kids))
		for _, k := range v.Kids {
			dst = Encode(dst, k)
		}
	case Binary, ASCII, JIS8, Local:
		dst = header(dst, v.FC, len(v.Raw))
		dst = append(dst, v.Raw...)
	case Boolean:
		dst = header(dst, Boolean, len(v.Bool))
		for _, b := range v.Bool {
			if b {
				dst = append(dst, 1)
			} else {
				dst = append(dst, 0)
			}
		}
	case I1, I2, I4, I8:
		w := Width(v.FC)
		dst = header(dst, v.FC, len(v.I)*w)
		for _, x := range v.I {
			dst = putBE(dst, uint64(x), w)
		}
	case U1, U2, U4, U8:
		w := Width(v.FC)
		dst = header(dst, v.FC, len(v.U)*w)
		for _, x := range v.U {
			dst = putBE(dst, x, w)
		}
	case F4:
		dst = header(dst, F4, len(v.F)*4)
		for _, x := range v.F {
			dst = putBE(dst, uint64(math.Float32bits(float32(x))), 4)
		}
	case F8:
		dst = header(dst, F8, len(v.F)*8)
		for _, x := range v.F {
			dst = putBE(dst, math.Float64bits(x), 8)
		}
	}
	return dst
}

func putBE(dst []byte, x uint64, w int) []byte {
	for i := w - 1; i >= 0; i-- {
		dst = append(dst, byte(x>>(8*uint(i))))
	}
	return dst
}

// Decode reads one item from b following the grammar; it returns the value, the
// number of bytes consumed, and ok=false if the grammar rejects the input. maxDepth
// is the list nesting limit (a list at depth > maxDepth is rejected; the outermost
// list is depth 1).
func Decode(b []byte, maxDepth int) (v *Val, n int, ok bool) {
	return dec(b, 0, 0, maxDepth)
}

func dec(b []byte, pos, depth, maxDepth int) (*Val, int, bool) {
	if pos >= len(b) {
		return nil, pos, false
	}
	fb := b[pos]
	pos++
	fc := fb >> 2
	nl := int(fb & 3)
	if nl == 0 {
		return nil, pos, false
	}
	if pos+nl > len(b) {
		return nil, pos, false
	}
	n := 0
	for i := 0; i < nl; i++ {
		n = n<<8 | int(b[pos+i])
	}
	pos += nl
	if !Known(fc) {
		return nil, pos, false
	}
	v := &Val{FC: fc}
	if fc == List {
		depth++
		if depth > maxDepth {
			return nil, pos, false
		}
		// each child needs at least 2 bytes
		if n > (len(b)-pos)/2 {
			return nil, pos, false
		}
		v.Kids = make([]*Val, 0, n)
		for i := 0; i < n; i++ {
			k, np, ok := dec(b, pos, depth, maxDepth)
			if !ok {
				return nil, pos, false
			}
			pos = np
			v.Kids = append(v.Kids, k)
		}
		return v, pos, true
	}
	if pos+n > len(b) {
		return nil, pos, false
	}
	pay := b[pos : pos+n]
	switch fc {
	case Binary, ASCII, JIS8:
		v.Raw = append([]byte{}, pay...)
	case Local:
		if n < 2 {
			return nil, pos, false
		}
		v.Raw = append([]byte{}, pay...)
	case Boolean:
		v.Bool = make([]bool, n)
		for i, x := range pay {
			v.Bool[i] = x != 0
		}
	default:
		w := Width(fc)
		if n%w != 0 {
			return nil, pos, false
		}
		cnt := n / w
		switch fc {
		case I1, I2, I4, I8:
			v.I = make([]int64, cnt)
			for i := range v.I {
				u := getBE(pay[i*w:], w)
				sh := uint(64 - 8*w)
				v.I[i] = int64(u<<sh) >> sh
			}
		case U1, U2, U4, U8:
			v.U = make([]uint64, cnt)
			for i := range v.U {
				v.U[i] = getBE(pay[i*w:], w)
			}
		case F4:
			v.F = make([]float64, cnt)
			for i := range v.F {
				v.F[i] = float64(math.Float32frombits(binary.BigEndian.Uint32(pay[i*4:])))
			}
		case F8:
			v.F = make([]float64, cnt)
			for i := range v.F {
				v.F[i] = math.Float64frombits(binary.BigEndian.Uint64(pay[i*8:]))
			}
		}
	}
	return v, pos + n, true
}

func getBE(b []byte, w int) uint64 {
	var x uint64
	for i := 0; i < w; i++ {
		x = x<<8 | uint64(b[i])
	}
	return x
}
