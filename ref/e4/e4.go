// Package e4 is a deliberately boring reference model of the SEMI E4 (SECS-I) block
// layer, written from the standard's text. It shares no code with the implementation
// and is the oracle for C17/C18.
//
// Block on the line (E4 section 6 "Block Transfer Protocol", section 7 "Block format"):
//
//	length byte N (10..254) = number of bytes between the length byte and the checksum
//	|| header (10 bytes) || data (0..244 bytes) || checksum (2 bytes, big-endian)
//
//	header byte 0    R-bit (0x80) | device id bits 14..8   R=1: equipment -> host, R=0: host -> equipment
//	       byte 1    device id bits 7..0
//	       byte 2    W-bit (0x80) | stream (7 bits)
//	       byte 3    function
//	       byte 4    E-bit (0x80, last block of the message) | block number bits 14..8
//	       byte 5    block number bits 7..0
//	       byte 6..9 system bytes
//
//	checksum = the 16-bit unsigned sum of the header and data bytes (NOT the length byte).
//
// Messages (E4 section 9): a message is sent as blocks numbered 1, 2, ... N, every block
// but the last full (244 data bytes), the E-bit set on the last block only. A message
// without text is ONE header-only block. A single-block message may carry block number
// 1 or 0 (both are accepted on receive); this model SENDS 1.
//
// Receive algorithm (E4 9.4.1 .. 9.4.4), see Receiver.
package e4

import (
	"errors"
	"fmt"
	"time"
)

// Handshake characters (E4 table 1).
const (
	ENQ = 0x05
	EOT = 0x04
	ACK = 0x06
	NAK = 0x15
)

// MaxData is the largest number of data bytes in one block.
const MaxData = 244

// Header holds the fields every block of one message shares.
type Header struct {
	Device   uint16 // 15 bits
	R        bool   // true: equipment -> host
	Stream   byte   // 7 bits
	W        bool
	Function byte
	System   [4]byte
}

// Block is one block: message header fields, block number, E-bit and data.
type Block struct {
	Header
	Number uint16 // 15 bits
	E      bool
	Data   []byte
}

// HeaderBytes packs the 10-byte block header.
func (b Block) HeaderBytes() [10]byte {
	var h [10]byte
	h[0] = byte(b.Device>>8) & 0x7F
	if b.R {
		h[0] |= 0x80
	}
	h[1] = byte(b.Device)
	h[2] = b.Stream & 0x7F
	if b.W {
		h[2] |= 0x80
	}
	h[3] = b.Function
	h[4] = byte(b.Number>>8) & 0x7F
	if b.E {
		h[4] |= 0x80
	}
	h[5] = byte(b.Number)
	h[6], h[7], h[8], h[9] = b.System[0], b.System[1], b.System[2], b.System[3]
	return h
}

// Checksum is the 16-bit unsigned sum of the given bytes (header || data).
func Checksum(headerAndData []byte) uint16 {
	var s uint16
	for _, c := range headerAndData {
		s += uint16(c)
	}
	return s
}

// Marshal renders the block as it crosses the line: length, header, data, checksum.
func (b Block) Marshal() []byte {
	if len(b.Data) > MaxData {
		panic("e4: block data longer than 244 bytes")
	}
	h := b.HeaderBytes()
	out := make([]byte, 0, 13+len(b.Data))
	out = append(out, byte(10+len(b.Data)))
	out = append(out, h[:]...)
	out = append(out, b.Data...)
	cs := Checksum(out[1:])
	return append(out, byte(cs>>8), byte(cs))
}

// Errors of Parse.
var (
	ErrLength   = errors.New("e4: length byte outside 10..254 or not matching the bytes present")
	ErrChecksum = errors.New("e4: checksum mismatch")
)

// Parse reads one complete block transmission (length byte .. checksum).
func Parse(wire []byte) (Block, error) {
	if len(wire) < 1 {
		return Block{}, ErrLength
	}
	n := int(wire[0])
	if n < 10 || n > 254 || len(wire) != 1+n+2 {
		return Block{}, ErrLength
	}
	if Checksum(wire[1:1+n]) != uint16(wire[1+n])<<8|uint16(wire[2+n]) {
		return Block{}, ErrChecksum
	}
	h := wire[1:11]
	b := Block{
		Header: Header{
			Device:   uint16(h[0]&0x7F)<<8 | uint16(h[1]),
			R:        h[0]&0x80 != 0,
			Stream:   h[2] & 0x7F,
			W:        h[2]&0x80 != 0,
			Function: h[3],
			System:   [4]byte{h[6], h[7], h[8], h[9]},
		},
		Number: uint16(h[4]&0x7F)<<8 | uint16(h[5]),
		E:      h[4]&0x80 != 0,
		Data:   append([]byte(nil), wire[11:1+n]...),
	}
	return b, nil
}

// Split cuts a message body into the blocks E4 prescribes: full 244-byte blocks numbered
// from 1, the remainder in the last block, E-bit on the last block only; an empty body
// gives one header-only block numbered 1 with the E-bit.
func Split(h Header, body []byte) []Block {
	if len(body) == 0 {
		return []Block{{Header: h, Number: 1, E: true}}
	}
	var out []Block
	for off, n := 0, uint16(1); off < len(body); off, n = off+MaxData, n+1 {
		end := off + MaxData
		if end > len(body) {
			end = len(body)
		}
		out = append(out, Block{Header: h, Number: n, E: end == len(body), Data: body[off:end]})
	}
	return out
}

// Message is one completely received message.
type Message struct {
	Header
	Body []byte
}

func (m Message) String() string {
	w := ""
	if m.W {
		w = "W"
	}
	return fmt.Sprintf("S%dF%d%s dev=%04x R=%v sys=%x body=%x", m.Stream, m.Function, w, m.Device, m.R, m.System, m.Body)
}

// Verdict says what the receive algorithm did with one block.
type Verdict string

// Verdicts.
const (
	VWrongDevice    Verdict = "wrong-device"    // 9.4.1: not addressed to this device: discarded
	VWrongDirection Verdict = "wrong-direction" // R-bit says the block travels away from this end: discarded
	VDuplicate      Verdict = "duplicate"       // 9.4.2: header identical to the last accepted block: discarded
	VNotFirst       Verdict = "not-first"       // 9.4.4: neither the expected block nor a first block: discarded
	VFirst          Verdict = "first"           // first block of a multi-block message: opened
	VNext           Verdict = "next"            // the expected block: appended
	VComplete       Verdict = "complete"        // block with the E-bit completing a message: delivered
)

// Receiver is the E4 9.4 message receive algorithm of one end of the line, with ONE
// open (partially received) message at a time.
//
//	9.4.1  a block whose device id is not this end's is discarded; so is a block whose
//	       R-bit says it travels away from this end.
//	9.4.3  the open message is abandoned when more than T4 passes between the acceptance
//	       of one of its blocks and the arrival of a later block (checked, as a receiver
//	       without its own clock tick does, when the later block arrives; blocks discarded
//	       in between do not restart T4).
//	9.4.2  a block whose 10-byte header equals the header of the last ACCEPTED block
//	       (accepted = taken as first or expected block, possibly of an earlier, already
//	       delivered message) is a retransmission: discarded, nothing else changes.
//	9.4.4  the EXPECTED block is the one whose header fields equal the open message's and
//	       whose number is the last accepted number + 1: appended; with the E-bit the
//	       message is complete and delivered. Any other block ends the open message
//	       (single-open-message rule: E4 would allow interleaving messages of different
//	       transactions; an implementation that keeps one open message abandons it), and is
//	       then looked at as a FIRST block: number 1, or number 0 with the E-bit (the
//	       single-block form), opens a new message (complete at once with the E-bit);
//	       anything else is discarded.
type Receiver struct {
	Device uint16
	Equip  bool // this end is the equipment: it accepts R=0 blocks
	T4     time.Duration

	open     bool
	hdr      Header
	expected uint16
	data     []byte
	lastAt   time.Duration
	haveLast bool
	last     [10]byte
}

// Open reports whether a partially received message is open, and the next expected number.
func (r *Receiver) Open(now time.Duration) (bool, uint16) {
	if r.open && now-r.lastAt > r.T4 {
		return false, 0
	}
	return r.open, r.expected
}

// Accept feeds one checksum-valid block that arrived at the given time. It returns the
// message completed by this block (nil if none) and what was done with the block.
func (r *Receiver) Accept(b Block, at time.Duration) (*Message, Verdict) {
	if b.Device != r.Device {
		return nil, VWrongDevice
	}
	if b.R == r.Equip {
		return nil, VWrongDirection
	}
	if r.open && at-r.lastAt > r.T4 {
		r.drop()
	}
	h := b.HeaderBytes()
	if r.haveLast && h == r.last {
		return nil, VDuplicate
	}
	if r.open {
		if b.Number == r.expected && b.Header == r.hdr {
			return r.take(b, h, at, VNext)
		}
		r.drop()
	}
	if b.Number == 1 || (b.Number == 0 && b.E) {
		r.open, r.hdr, r.data = true, b.Header, nil
		return r.take(b, h, at, VFirst)
	}
	return nil, VNotFirst
}

func (r *Receiver) take(b Block, h [10]byte, at time.Duration, v Verdict) (*Message, Verdict) {
	r.data = append(r.data, b.Data...)
	r.expected = b.Number + 1
	r.lastAt = at
	r.last, r.haveLast = h, true
	if !b.E {
		return nil, v
	}
	m := &Message{Header: r.hdr, Body: append([]byte{}, r.data...)}
	r.drop()
	return m, VComplete
}

func (r *Receiver) drop() {
	r.open, r.hdr, r.expected, r.data = false, Header{}, 0, nil
}

// Arrival is one block with its arrival time.
type Arrival struct {
	Block Block
	At    time.Duration
}

// Receive runs a whole arrival sequence through a fresh Receiver and returns, per
// arrival, the message it completed (nil if none).
func Receive(device uint16, equip bool, t4 time.Duration, seq []Arrival) []*Message {
	r := &Receiver{Device: device, Equip: equip, T4: t4}
	out := make([]*Message, len(seq))
	for i, a := range seq {
		out[i], _ = r.Accept(a.Block, a.At)
	}
	return out
}
