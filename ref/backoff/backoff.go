// Package backoff is the reference model of the reconnect backoff, written from the
// documentation of hsms.WithReconnectBackoff / hsms.WithT5 only:
//
//	"The first attempt after a drop waits for the duration specified by initial. ...
//	 Each subsequent failed attempt multiplies the previous wait by multiplier, capped at the
//	 configured T5. T5 functions as the backoff CEILING ... never exceeds."
//
// So the k-th wait (k = 0 is the wait before the first attempt after the drop) is
//
//	wait(0) = min(initial, T5)
//	wait(k) = min(wait(k-1) * multiplier, T5)
//
// The product is taken in float64 (the multiplier is a float64) and truncated to whole
// nanoseconds; a product that is not a finite number below T5 is T5.
package backoff

import (
	"math"
	"time"
)

// Next is the wait after one more failed attempt.
func Next(prev time.Duration, multiplier float64, t5 time.Duration) time.Duration {
	p := float64(prev) * multiplier
	if math.IsNaN(p) || math.IsInf(p, 0) || p >= float64(t5) || p <= 0 {
		return t5
	}
	d := time.Duration(p)
	if d <= 0 || d > t5 {
		return t5
	}
	return d
}

// Waits returns the first n waits of one reconnect loop.
func Waits(initial time.Duration, multiplier float64, t5 time.Duration, n int) []time.Duration {
	out := make([]time.Duration, 0, n)
	w := min(initial, t5)
	for i := 0; i < n; i++ {
		out = append(out, w)
		w = Next(w, multiplier, t5)
	}
	return out
}
