// Package e37 is a deliberately boring reference model of the SEMI E37 (HSMS) message
// frame, written from the standard's text (E37 section 8.2 "HSMS Message Format"):
//
//	frame   = length (4 bytes, big-endian, = number of bytes that follow = 10 + len(text))
//	          || header (10 bytes) || text (0..n bytes, the SECS-II item for a data message)
//	header  = byte 0..1  Session ID (device ID), big-endian
//	          byte 2     data message: W-bit (0x80) | stream (7 bits); control: 0, except
//	                     Reject.req where it is the PType (reason 2) or SType (any other
//	                     reason) of the message being rejected
//	          byte 3     data message: function; Select.rsp: select status; Deselect.rsp:
//	                     deselect status; Reject.req: reason code; otherwise 0
//	          byte 4     PType (0 = SECS-II encoding; everything else is reserved)
//	          byte 5     SType (0 data, 1 Select.req, 2 Select.rsp, 3 Deselect.req,
//	                     4 Deselect.rsp, 5 Linktest.req, 6 Linktest.rsp, 7 Reject.req,
//	                     9 Separate.req; 8 and 10..255 are not defined)
//	          byte 6..9  System Bytes
//
// It shares no code with the implementation and is the oracle for C03/C04.
package e37

// SType values.
const (
	Data        = 0
	SelectReq   = 1
	SelectRsp   = 2
	DeselectReq = 3
	DeselectRsp = 4
	LinktestReq = 5
	LinktestRsp = 6
	RejectReq   = 7
	SeparateReq = 9
)

// Reject reason codes (E37 table "Reason Code").
const (
	ReasonSTypeNotSupported  = 1
	ReasonPTypeNotSupported  = 2
	ReasonTransactionNotOpen = 3
	ReasonNotSelected        = 4
)

// Fields are the logical contents of the 10-byte header.
type Fields struct {
	Session uint16
	B2, B3  byte
	PType   byte
	SType   byte
	Sys     [4]byte
}

// DefinedSType reports whether s is one of the nine SType values E37 defines.
func DefinedSType(s byte) bool {
	switch s {
	case Data, SelectReq, SelectRsp, DeselectReq, DeselectRsp, LinktestReq, LinktestRsp, RejectReq, SeparateReq:
		return true
	}
	return false
}

// STypeName names an SType.
func STypeName(s byte) string {
	switch s {
	case Data:
		return "data"
	case SelectReq:
		return "select.req"
	case SelectRsp:
		return "select.rsp"
	case DeselectReq:
		return "deselect.req"
	case DeselectRsp:
		return "deselect.rsp"
	case LinktestReq:
		return "linktest.req"
	case LinktestRsp:
		return "linktest.rsp"
	case RejectReq:
		return "reject.req"
	case SeparateReq:
		return "separate.req"
	}
	return "undefined"
}

// DataFields builds the header fields of a data message.
func DataFields(session uint16, stream, function byte, w bool, sys [4]byte) Fields {
	b2 := stream & 0x7F
	if w {
		b2 |= 0x80
	}
	return Fields{Session: session, B2: b2, B3: function, Sys: sys}
}

// Stream / Function / W read the data-message view of the fields.
func (f Fields) Stream() byte   { return f.B2 & 0x7F }
func (f Fields) Function() byte { return f.B3 }
func (f Fields) W() bool        { return f.B2&0x80 != 0 }

// ID is the System Bytes as a big-endian 32-bit number.
func (f Fields) ID() uint32 {
	return uint32(f.Sys[0])<<24 | uint32(f.Sys[1])<<16 | uint32(f.Sys[2])<<8 | uint32(f.Sys[3])
}

// RejectB2 is header byte 2 of a Reject.req for a rejected message with the given PType
// and SType: the PType for reason "PType not supported", otherwise the SType.
func RejectB2(ptype, stype, reason byte) byte {
	if reason == ReasonPTypeNotSupported {
		return ptype
	}
	return stype
}

// Header lays the fields out in their E37 positions.
func Header(f Fields) [10]byte {
	return [10]byte{byte(f.Session >> 8), byte(f.Session), f.B2, f.B3, f.PType, f.SType, f.Sys[0], f.Sys[1], f.Sys[2], f.Sys[3]}
}

// FieldsOf reads the fields back from a header.
func FieldsOf(h []byte) Fields {
	return Fields{Session: uint16(h[0])<<8 | uint16(h[1]), B2: h[2], B3: h[3], PType: h[4], SType: h[5], Sys: [4]byte{h[6], h[7], h[8], h[9]}}
}

// Frame is the complete on-wire frame for the fields and the message text.
func Frame(f Fields, body []byte) []byte {
	n := uint32(10 + len(body))
	out := make([]byte, 0, 14+len(body))
	out = append(out, byte(n>>24), byte(n>>16), byte(n>>8), byte(n))
	h := Header(f)
	out = append(out, h[:]...)
	return append(out, body...)
}

// ParsePayload implements the accept rule for [header || text] without the length
// prefix: at least the 10 header bytes, at most maxLen bytes, PType 0, defined SType.
func ParsePayload(p []byte, maxLen int) (Fields, []byte, bool) {
	if len(p) < 10 || len(p) > maxLen {
		return Fields{}, nil, false
	}
	f := FieldsOf(p[:10])
	if f.PType != 0 || !DefinedSType(f.SType) {
		return Fields{}, nil, false
	}
	return f, p[10:], true
}

// Parse implements the accept rule for a complete frame: a 4-byte length field that
// equals the number of bytes that follow and lies in [10, maxLen], PType 0, defined SType.
func Parse(frame []byte, maxLen int) (Fields, []byte, bool) {
	if len(frame) < 4 {
		return Fields{}, nil, false
	}
	n := uint64(frame[0])<<24 | uint64(frame[1])<<16 | uint64(frame[2])<<8 | uint64(frame[3])
	if n < 10 || n > uint64(maxLen) || n != uint64(len(frame)-4) {
		return Fields{}, nil, false
	}
	return ParsePayload(frame[4:], maxLen)
}
