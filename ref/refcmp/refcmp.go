// Package refcmp compares a secs2.Item, through its public accessors only, with a
// reference value tree (ref/e5.Val).
package refcmp

import (
	"fmt"
	"math"

	"github.com/arloliu/go-secs/v2/secs2"

	"verif/ref/e5"
)

// Match returns nil iff every public observation of it equals what the reference
// value prescribes: Type, Size, Error()==nil, the matching To* accessor, the *At
// accessors, the iterator, and (lists) recursively every child through ToList, ItemAt,
// Items and Get.
func Match(it secs2.Item, v *e5.Val) error {
	return match(it, v, "")
}

func f32eq(a, b float64) bool {
	return math.Float32bits(float32(a)) == math.Float32bits(float32(b)) ||
		(math.IsNaN(a) && math.IsNaN(b))
}
func f64eq(a, b float64) bool {
	return math.Float64bits(a) == math.Float64bits(b) || (math.IsNaN(a) && math.IsNaN(b))
}

func match(it secs2.Item, v *e5.Val, path string) error {
	if it == nil {
		return fmt.Errorf("%s: nil item", path)
	}
	if err := it.Error(); err != nil {
		return fmt.Errorf("%s: Error()=%v", path, err)
	}
	if got, want := it.Type(), e5.TypeName(v.FC); got != want {
		return fmt.Errorf("%s: Type()=%q want %q", path, got, want)
	}
	if got, want := it.Size(), v.Count(); got != want {
		return fmt.Errorf("%s: Size()=%d want %d", path, got, want)
	}
	switch v.FC {
	case e5.List:
		if !it.IsList() {
			return fmt.Errorf("%s: IsList false", path)
		}
		kids, err := it.ToList()
		if err != nil || len(kids) != len(v.Kids) {
			return fmt.Errorf("%s: ToList len=%d err=%v want %d", path, len(kids), err, len(v.Kids))
		}
		i := 0
		for k := range it.Items() {
			if i >= len(kids) || k != kids[i] {
				return fmt.Errorf("%s: Items()[%d] differs from ToList", path, i)
			}
			i++
		}
		if i != len(kids) {
			return fmt.Errorf("%s: Items() yielded %d of %d", path, i, len(kids))
		}
		for i, k := range kids {
			at, err := it.ItemAt(i)
			if err != nil || at != k {
				return fmt.Errorf("%s: ItemAt(%d) err=%v or differs", path, i, err)
			}
			g, err := it.Get(i)
			if err != nil || g != k {
				return fmt.Errorf("%s: Get(%d) err=%v or differs", path, i, err)
			}
			if err := match(k, v.Kids[i], fmt.Sprintf("%s/%d", path, i)); err != nil {
				return err
			}
		}
		if _, err := it.ItemAt(len(kids)); err == nil {
			return fmt.Errorf("%s: ItemAt(len) no error", path)
		}
	case e5.Binary:
		if !it.IsBinary() {
			return fmt.Errorf("%s: IsBinary false", path)
		}
		b, err := it.ToBinary()
		if err != nil || string(b) != string(v.Raw) {
			return fmt.Errorf("%s: ToBinary=%x err=%v want %x", path, clip(b), err, clip(v.Raw))
		}
		if ab := it.AppendBinaryTo([]byte{9}); string(ab) != "\x09"+string(v.Raw) {
			return fmt.Errorf("%s: AppendBinaryTo mismatch", path)
		}
		for _, i := range idx(len(v.Raw)) {
			x, err := it.ByteAt(i)
			if err != nil || x != v.Raw[i] {
				return fmt.Errorf("%s: ByteAt(%d)=%x err=%v want %x", path, i, x, err, v.Raw[i])
			}
		}
	case e5.ASCII:
		s, err := it.ToASCII()
		if err != nil || s != string(v.Raw) || !it.IsASCII() {
			return fmt.Errorf("%s: ToASCII=%q err=%v want %q", path, clips(s), err, clip(v.Raw))
		}
	case e5.JIS8:
		s, err := it.ToJIS8()
		if err != nil || s != string(v.Raw) || !it.IsJIS8() {
			return fmt.Errorf("%s: ToJIS8=%q err=%v want %q", path, clips(s), err, clip(v.Raw))
		}
	case e5.Local:
		s, err := it.ToLocalizedStr()
		if err != nil || s != string(v.Raw[2:]) || !it.IsLocalizedStr() {
			return fmt.Errorf("%s: ToLocalizedStr=%q err=%v want %q", path, clips(s), err, clip(v.Raw[2:]))
		}
		h, err := it.ToLocalizedStrHeader()
		if err != nil || h != uint16(v.Raw[0])<<8|uint16(v.Raw[1]) {
			return fmt.Errorf("%s: LSH=%x err=%v want %x", path, h, err, v.Raw[:2])
		}
	case e5.Boolean:
		bs, err := it.ToBoolean()
		if err != nil || len(bs) != len(v.Bool) || !it.IsBoolean() {
			return fmt.Errorf("%s: ToBoolean len=%d err=%v", path, len(bs), err)
		}
		j := 0
		for x := range it.Bools() {
			if j >= len(v.Bool) || x != v.Bool[j] {
				return fmt.Errorf("%s: Bools()[%d] mismatch", path, j)
			}
			j++
		}
		if j != len(v.Bool) {
			return fmt.Errorf("%s: Bools() yielded %d of %d", path, j, len(v.Bool))
		}
		for i := range bs {
			if bs[i] != v.Bool[i] {
				return fmt.Errorf("%s: ToBoolean[%d]=%v", path, i, bs[i])
			}
		}
		for _, i := range idx(len(v.Bool)) {
			x, err := it.BoolAt(i)
			if err != nil || x != v.Bool[i] {
				return fmt.Errorf("%s: BoolAt(%d)", path, i)
			}
		}
	case e5.I1, e5.I2, e5.I4, e5.I8:
		want := map[byte]bool{e5.I1: it.IsInt8(), e5.I2: it.IsInt16(), e5.I4: it.IsInt32(), e5.I8: it.IsInt64()}
		if !want[v.FC] {
			return fmt.Errorf("%s: Is-predicate false", path)
		}
		xs, err := it.ToInt()
		if err != nil || len(xs) != len(v.I) {
			return fmt.Errorf("%s: ToInt len=%d err=%v want %d", path, len(xs), err, len(v.I))
		}
		j := 0
		for x := range it.Ints() {
			if j >= len(v.I) || x != v.I[j] {
				return fmt.Errorf("%s: Ints()[%d]=%d", path, j, x)
			}
			j++
		}
		if j != len(v.I) {
			return fmt.Errorf("%s: Ints() yielded %d of %d", path, j, len(v.I))
		}
		for i := range xs {
			if xs[i] != v.I[i] {
				return fmt.Errorf("%s: ToInt[%d]=%d want %d", path, i, xs[i], v.I[i])
			}
		}
		for _, i := range idx(len(v.I)) {
			x, err := it.IntAt(i)
			if err != nil || x != v.I[i] {
				return fmt.Errorf("%s: IntAt(%d)=%d err=%v want %d", path, i, x, err, v.I[i])
			}
		}
	case e5.U1, e5.U2, e5.U4, e5.U8:
		want := map[byte]bool{e5.U1: it.IsUint8(), e5.U2: it.IsUint16(), e5.U4: it.IsUint32(), e5.U8: it.IsUint64()}
		if !want[v.FC] {
			return fmt.Errorf("%s: Is-predicate false", path)
		}
		xs, err := it.ToUint()
		if err != nil || len(xs) != len(v.U) {
			return fmt.Errorf("%s: ToUint len=%d err=%v want %d", path, len(xs), err, len(v.U))
		}
		j := 0
		for x := range it.Uints() {
			if j >= len(v.U) || x != v.U[j] {
				return fmt.Errorf("%s: Uints()[%d]=%d", path, j, x)
			}
			j++
		}
		if j != len(v.U) {
			return fmt.Errorf("%s: Uints() yielded %d of %d", path, j, len(v.U))
		}
		for i := range xs {
			if xs[i] != v.U[i] {
				return fmt.Errorf("%s: ToUint[%d]=%d want %d", path, i, xs[i], v.U[i])
			}
		}
		for _, i := range idx(len(v.U)) {
			x, err := it.UintAt(i)
			if err != nil || x != v.U[i] {
				return fmt.Errorf("%s: UintAt(%d)=%d err=%v want %d", path, i, x, err, v.U[i])
			}
		}
	case e5.F4, e5.F8:
		eq := f64eq
		if v.FC == e5.F4 {
			eq = f32eq
			if !it.IsFloat32() {
				return fmt.Errorf("%s: IsFloat32 false", path)
			}
		} else if !it.IsFloat64() {
			return fmt.Errorf("%s: IsFloat64 false", path)
		}
		xs, err := it.ToFloat()
		if err != nil || len(xs) != len(v.F) {
			return fmt.Errorf("%s: ToFloat len=%d err=%v want %d", path, len(xs), err, len(v.F))
		}
		j := 0
		for x := range it.Floats() {
			if j >= len(v.F) || !eq(x, v.F[j]) {
				return fmt.Errorf("%s: Floats()[%d]=%v", path, j, x)
			}
			j++
		}
		if j != len(v.F) {
			return fmt.Errorf("%s: Floats() yielded %d of %d", path, j, len(v.F))
		}
		for i := range xs {
			if !eq(xs[i], v.F[i]) {
				return fmt.Errorf("%s: ToFloat[%d]=%v want %v", path, i, xs[i], v.F[i])
			}
		}
		for _, i := range idx(len(v.F)) {
			x, err := it.FloatAt(i)
			if err != nil || !eq(x, v.F[i]) {
				return fmt.Errorf("%s: FloatAt(%d)=%v err=%v want %v", path, i, x, err, v.F[i])
			}
		}
	default:
		return fmt.Errorf("%s: reference has unknown format %o", path, v.FC)
	}
	return nil
}

// idx returns the indices probed through the *At accessors: all for short items,
// first/last/boundary positions for long ones.
func idx(n int) []int {
	if n <= 64 {
		r := make([]int, n)
		for i := range r {
			r[i] = i
		}
		return r
	}
	return []int{0, 1, 2, n / 2, n - 2, n - 1}
}

func clip(b []byte) []byte {
	if len(b) > 24 {
		return b[:24]
	}
	return b
}
func clips(s string) string {
	if len(s) > 24 {
		return s[:24]
	}
	return s
}
