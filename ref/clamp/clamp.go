// Package clamp is the reference model of what the SECS-II item constructors of
// go-secs do with each argument. It is written from the constructors' DOC COMMENTS
// (secs2.NewIntItem, NewUintItem, NewFloatItem, NewBinaryItem, NewBooleanItem) and from
// property C16, not from their code, and works on argument DESCRIPTORS (type name +
// spelled values) with math/big, so it shares no arithmetic with the implementation.
//
// What the documentation says, clause by clause (the model's whole content):
//
//	NewIntItem    byteSize 1,2,4,8. Values: int,int8..int64, uint,uint8..uint64, a slice of
//	              any of those, or a string holding a decimal/hex/octal integer literal.
//	              Out-of-range values are CLAMPED to the width. Invalid byteSize, unsupported
//	              type or non-numeric string: deferred error.
//	NewUintItem   same types; signed values must be non-negative. Out-of-range values are
//	              CLAMPED to the maximum. NEGATIVE signed values: deferred error. String:
//	              decimal/hex/octal UNSIGNED literal. Invalid size / type / string: error.
//	NewFloatItem  byteSize 4,8. Values: float32, float64, the ten integer types, slices of
//	              those, or a string holding a decimal floating-point literal. byteSize 4:
//	              float64 magnitudes above MaxFloat32 are CLAMPED to +-MaxFloat32; NaN, +-Inf
//	              pass. Integers with magnitude above 2^53: deferred error. Anything that
//	              cannot be converted: deferred error.
//	NewBinaryItem byte, []byte, int in [0,255], string numeric literal (decimal, hex, octal,
//	              binary) in [0,255]. Out of range or unsupported type: deferred error.
//	NewBooleanItem bool, []bool. Anything else: deferred error.
//
// Where the documentation is silent (a '+' sign, '_' digit separators, a binary literal
// for an integer item, a []string argument, a hexadecimal or "Inf"/"NaN" float spelling,
// a float string beyond the float64 / float32 range, a user-defined integer type, uintptr)
// the model answers MayErr: a deferred error is accepted, and so is the one listed value —
// but never any other value.
package clamp

import (
	"math"
	"math/big"
	"strings"
)

// Arg describes one constructor argument.
//
//	T  Go type: int int8 int16 int32 int64 uint uint8 uint16 uint32 uint64 uintptr float32
//	   float64 string bool, "[]"+any of those, nil, struct{}, []any, map[string]int, *int,
//	   myInt (type myInt int), myInts (type myInts []int)
//	V  the element spellings (exactly one for a scalar): integers in decimal; floats as
//	   Go hex-float text ('x' format), "NaN", "+Inf", "-Inf"; strings verbatim;
//	   bools "true"/"false". Unused for nil, struct{}, map, *int; []any holds ints.
type Arg struct {
	T string   `json:"t"`
	V []string `json:"v"` // null = nil slice / no value, [] = empty non-nil slice
}

// Family of a constructor.
type Family string

const (
	Int     Family = "int"
	Uint    Family = "uint"
	Float   Family = "float"
	Binary  Family = "binary"
	Boolean Family = "boolean"
)

// Ctor is a constructor: family and the byteSize argument (0 for Binary/Boolean).
type Ctor struct {
	Fam  Family
	Size int
}

// Need says whether the documentation requires, permits or forbids a deferred error.
type Need int

const (
	NoErr   Need = iota // documented as accepted: Error() must be nil
	MayErr              // documentation silent: an error, or exactly the listed value
	MustErr             // documented deferred error
)

// Elem is the expectation for one resulting element.
type Elem struct {
	// Exact is the mathematically exact argument value: X for an integer-valued
	// argument (IsInt), otherwise F.
	IsInt bool
	X     *big.Int
	F     float64
	B     bool // Boolean family
	// Want* is what the item must hold if Error()==nil: the exact value when it is
	// representable in the item's width, otherwise the NEAREST representable bound.
	WantI   int64
	WantU   uint64
	WantF   float64
	Clamped bool // Want differs from the exact value (the argument lies outside the width)
	// DocErr != "": the documentation says this element makes the whole item errored
	// (Want* then records what the property's "clamp" reading would give, so that a
	// missing error can be told apart from a wrapped value).
	DocErr string
}

// ArgRes is the model's answer for one argument.
type ArgRes struct {
	Need  Need
	Why   string // reason for MustErr / MayErr
	Elems []Elem // elements contributed when no error is raised (nil when the type has no numeric reading)
}

// Res is the model's answer for an argument list.
type Res struct {
	Need    Need
	Why     string
	WhyArg  int    // index of the argument that decided Need (-1: the byte size)
	Elems   []Elem // concatenation in argument order; nil if some argument has no numeric reading
	NoElems bool   // true if some argument has no numeric reading (Elems is meaningless)
	Clamped bool   // some element is clamped
}

// ValidSize reports whether the documentation allows the byte size.
func ValidSize(c Ctor) bool {
	switch c.Fam {
	case Int, Uint:
		return c.Size == 1 || c.Size == 2 || c.Size == 4 || c.Size == 8
	case Float:
		return c.Size == 4 || c.Size == 8
	}
	return true
}

// Eval combines the per-argument answers: an error in any argument makes the item
// errored; values keep their order.
func Eval(c Ctor, args []Arg) Res {
	rs := make([]ArgRes, len(args))
	for i, a := range args {
		rs[i] = EvalArg(c, a)
	}
	return Combine(c, rs)
}

// Combine merges precomputed per-argument answers.
func Combine(c Ctor, rs []ArgRes) Res {
	out := Res{WhyArg: -1}
	if !ValidSize(c) {
		out.Need, out.Why, out.NoElems = MustErr, "invalid byte size", true
		return out
	}
	for i, r := range rs {
		if r.Need > out.Need {
			out.Need, out.Why, out.WhyArg = r.Need, r.Why, i
		}
		if r.Elems == nil && r.Need != NoErr {
			out.NoElems = true
		}
		out.Elems = append(out.Elems, r.Elems...)
	}
	for _, e := range out.Elems {
		if e.Clamped {
			out.Clamped = true
		}
	}
	if out.NoElems {
		out.Elems = nil
	}
	return out
}

var intTypes = map[string][2]string{
	"int":    {"-9223372036854775808", "9223372036854775807"},
	"int8":   {"-128", "127"},
	"int16":  {"-32768", "32767"},
	"int32":  {"-2147483648", "2147483647"},
	"int64":  {"-9223372036854775808", "9223372036854775807"},
	"uint":   {"0", "18446744073709551615"},
	"uint8":  {"0", "255"},
	"uint16": {"0", "65535"},
	"uint32": {"0", "4294967295"},
	"uint64": {"0", "18446744073709551615"},
}

func bi(s string) *big.Int {
	x, ok := new(big.Int).SetString(s, 10)
	if !ok {
		panic("clamp: bad integer spelling " + s)
	}
	return x
}

// EvalArg is the model for one argument of one constructor.
func EvalArg(c Ctor, a Arg) ArgRes {
	if !ValidSize(c) {
		return ArgRes{Need: MustErr, Why: "invalid byte size"}
	}
	elemT, isSlice := a.T, false
	if strings.HasPrefix(a.T, "[]") {
		elemT, isSlice = a.T[2:], true
	}
	unsupported := ArgRes{Need: MustErr, Why: "unsupported type " + a.T}
	switch {
	case elemT == "myInt" || a.T == "myInts" || elemT == "uintptr":
		// integer-valued, but not one of the listed types: the documentation neither
		// promises nor excludes them
		if c.Fam == Boolean {
			return unsupported
		}
		r := ArgRes{Need: MayErr, Why: "type " + a.T + " is not in the documented list"}
		for _, v := range a.V {
			e, _ := intoFamily(c, bi(v))
			r.Elems = append(r.Elems, e)
		}
		if r.Elems == nil {
			r.Elems = []Elem{}
		}
		return r
	case elemT == "bool":
		if c.Fam != Boolean {
			return unsupported
		}
		r := ArgRes{Elems: []Elem{}}
		for _, v := range a.V {
			r.Elems = append(r.Elems, Elem{B: v == "true"})
		}
		return r
	case c.Fam == Boolean:
		return unsupported
	case intTypes[elemT][0] != "":
		if c.Fam == Binary {
			// "byte (uint8), []byte, int in [0,255]" — and nothing else
			if !(a.T == "uint8" || a.T == "[]uint8" || a.T == "int") {
				return unsupported
			}
		}
		r := ArgRes{Elems: []Elem{}}
		for _, v := range a.V {
			e, why := intoFamily(c, bi(v))
			if why != "" {
				e.DocErr = why
				if r.Need != MustErr {
					r.Need, r.Why = MustErr, why
				}
			}
			r.Elems = append(r.Elems, e)
		}
		return r
	case elemT == "float32" || elemT == "float64":
		if c.Fam != Float {
			return unsupported
		}
		r := ArgRes{Elems: []Elem{}}
		for _, v := range a.V {
			f := ParseFloatSpelling(v)
			if elemT == "float32" {
				f = float64(float32(f))
			}
			r.Elems = append(r.Elems, floatElem(c, f))
		}
		return r
	case elemT == "string":
		r := ArgRes{Elems: []Elem{}}
		if isSlice {
			// "a slice of any of those types" names the numeric types; a []string is
			// not mentioned anywhere
			if c.Fam == Binary {
				return unsupported
			}
			r.Need, r.Why = MayErr, "[]string is not in the documented list"
		}
		for _, v := range a.V {
			e, need, why := stringInto(c, v)
			if need == MustErr && e.DocErr == "" {
				// no numeric reading at all
				return ArgRes{Need: MustErr, Why: why}
			}
			if need > r.Need {
				r.Need, r.Why = need, why
			}
			r.Elems = append(r.Elems, e)
		}
		return r
	}
	// nil, struct{}, []any, map[string]int, *int, anything else
	return unsupported
}

func widthBounds(c Ctor) (lo, hi *big.Int) {
	switch c.Fam {
	case Int:
		hi = new(big.Int).Lsh(big.NewInt(1), uint(8*c.Size-1))
		lo = new(big.Int).Neg(hi)
		hi.Sub(hi, big.NewInt(1))
	case Uint:
		lo = big.NewInt(0)
		hi = new(big.Int).Lsh(big.NewInt(1), uint(8*c.Size))
		hi.Sub(hi, big.NewInt(1))
	case Binary:
		lo, hi = big.NewInt(0), big.NewInt(255)
	}
	return
}

var two53 = new(big.Int).Lsh(big.NewInt(1), 53)

// intoFamily places the exact integer x into an item of constructor c. why != "" names
// the documentation clause that makes the item errored.
func intoFamily(c Ctor, x *big.Int) (e Elem, why string) {
	e.IsInt, e.X = true, x
	switch c.Fam {
	case Int, Uint, Binary:
		lo, hi := widthBounds(c)
		w := x
		if x.Cmp(lo) < 0 {
			w, e.Clamped = lo, true
		} else if x.Cmp(hi) > 0 {
			w, e.Clamped = hi, true
		}
		if c.Fam == Int {
			e.WantI = w.Int64()
		} else {
			e.WantU = w.Uint64()
		}
		if c.Fam == Uint && x.Sign() < 0 {
			why = "negative value into unsigned item"
		}
		if c.Fam == Binary && e.Clamped {
			why = "binary value outside [0,255]"
		}
	case Float:
		f, _ := new(big.Float).SetInt(x).Float64() // nearest float64 (exact up to 2^53)
		fe := floatElem(c, f)
		e.WantF, e.Clamped = fe.WantF, fe.Clamped
		if new(big.Int).Abs(x).Cmp(two53) > 0 {
			why = "integer magnitude above 2^53 into float item"
		}
	}
	return
}

func floatElem(c Ctor, f float64) Elem {
	e := Elem{F: f, WantF: f}
	if c.Size == 4 && !math.IsNaN(f) && !math.IsInf(f, 0) {
		if f > math.MaxFloat32 {
			e.WantF, e.Clamped = math.MaxFloat32, true
		} else if f < -math.MaxFloat32 {
			e.WantF, e.Clamped = -math.MaxFloat32, true
		}
	}
	return e
}

// ParseFloatSpelling decodes a descriptor's float spelling (hex-float text, NaN, +-Inf).
func ParseFloatSpelling(s string) float64 {
	switch s {
	case "NaN":
		return math.NaN()
	case "+Inf":
		return math.Inf(1)
	case "-Inf":
		return math.Inf(-1)
	}
	f, _, err := big.ParseFloat(s, 0, 53, big.ToNearestEven)
	if err != nil {
		panic("clamp: bad float spelling " + s)
	}
	v, _ := f.Float64()
	return v
}

// ---- string arguments ------------------------------------------------------------------

type litClass int

const (
	litInvalid litClass = iota // not a numeric literal at all
	litSilent                  // numeric in some common reading the documentation does not mention
	litDoc                     // a documented spelling
)

func digitsOK(s string, base int) bool {
	if s == "" {
		return false
	}
	for _, ch := range s {
		d := -1
		switch {
		case ch >= '0' && ch <= '9':
			d = int(ch - '0')
		case ch >= 'a' && ch <= 'f':
			d = int(ch-'a') + 10
		case ch >= 'A' && ch <= 'F':
			d = int(ch-'A') + 10
		}
		if d < 0 || d >= base {
			return false
		}
	}
	return true
}

// intLiteral reads s as an integer literal: optional sign, then decimal digits, 0x hex,
// 0o or leading-0 octal, 0b binary. binaryDoc: the constructor documents binary literals.
func intLiteral(s string, binaryDoc bool) (*big.Int, litClass) {
	class := litDoc
	if strings.ContainsRune(s, '_') {
		s = strings.ReplaceAll(s, "_", "")
		class = litSilent
	}
	neg := false
	if strings.HasPrefix(s, "-") {
		neg, s = true, s[1:]
	} else if strings.HasPrefix(s, "+") {
		s, class = s[1:], litSilent
	}
	base, body := 10, s
	switch {
	case len(s) > 2 && (s[:2] == "0x" || s[:2] == "0X"):
		base, body = 16, s[2:]
	case len(s) > 2 && (s[:2] == "0o" || s[:2] == "0O"):
		base, body = 8, s[2:]
	case len(s) > 2 && (s[:2] == "0b" || s[:2] == "0B"):
		base, body = 2, s[2:]
		if !binaryDoc {
			class = litSilent
		}
	case len(s) > 1 && s[0] == '0':
		if digitsOK(s[1:], 8) {
			base, body = 8, s[1:]
		} else {
			class = litSilent // "08": neither octal nor a usual decimal spelling
		}
	}
	if !digitsOK(body, base) {
		return nil, litInvalid
	}
	x, _ := new(big.Int).SetString(body, base)
	if neg {
		x.Neg(x)
	}
	return x, class
}

var maxF64 = new(big.Rat).SetFloat64(math.MaxFloat64)

// floatLiteral reads s as a decimal floating-point literal
// [sign] (digits [. [digits]] | . digits) [ (e|E) [sign] digits ].
func floatLiteral(s string) (f float64, over bool, class litClass) {
	class = litDoc
	t := s
	if strings.HasPrefix(t, "-") {
		t = t[1:]
	} else if strings.HasPrefix(t, "+") {
		t, class = t[1:], litSilent
	}
	mant, exp := t, ""
	if i := strings.IndexAny(t, "eE"); i >= 0 {
		mant, exp = t[:i], t[i+1:]
		if strings.HasPrefix(exp, "-") || strings.HasPrefix(exp, "+") {
			exp = exp[1:]
		}
		if !digitsOK(exp, 10) || len(exp) > 4 {
			return 0, false, litInvalid
		}
	}
	ip, fp := mant, ""
	if i := strings.IndexByte(mant, '.'); i >= 0 {
		ip, fp = mant[:i], mant[i+1:]
	}
	if (ip == "" && fp == "") || (ip != "" && !digitsOK(ip, 10)) || (fp != "" && !digitsOK(fp, 10)) {
		return 0, false, litInvalid
	}
	if len(ip) > 1 && ip[0] == '0' {
		class = litSilent // "0377": decimal 377 is the only sensible float reading, but it is not spelled out
	}
	r, ok := new(big.Rat).SetString(strings.TrimPrefix(s, "+"))
	if !ok {
		return 0, false, litInvalid
	}
	if new(big.Rat).Abs(r).Cmp(maxF64) > 0 {
		// beyond float64: check whether it still rounds to MaxFloat64
		f, _ = r.Float64()
		if math.IsInf(f, 0) {
			return f, true, class
		}
		return f, false, class
	}
	f, _ = r.Float64()
	if f == 0 && r.Sign() < 0 || f == 0 && strings.HasPrefix(s, "-") {
		f = math.Copysign(0, -1)
	}
	return f, false, class
}

// stringInto is the model for one string element.
func stringInto(c Ctor, s string) (Elem, Need, string) {
	switch c.Fam {
	case Int, Uint, Binary:
		x, class := intLiteral(s, c.Fam == Binary)
		if class == litInvalid {
			return Elem{}, MustErr, "string is not an integer literal"
		}
		e, why := intoFamily(c, x)
		if c.Fam == Uint && strings.HasPrefix(s, "-") {
			if x.Sign() == 0 {
				return e, MayErr, "\"-0\" is not an unsigned literal"
			}
			e.DocErr = "negative literal into unsigned item"
			return e, MustErr, e.DocErr
		}
		if why != "" { // binary out of range
			e.DocErr = why
			return e, MustErr, why
		}
		if class == litSilent {
			return e, MayErr, "undocumented integer spelling"
		}
		return e, NoErr, ""
	case Float:
		f, over, class := floatLiteral(s)
		if class != litInvalid {
			if over {
				// beyond float64: the property asks for the nearest bound, the
				// documentation for an error when a value "cannot be converted"
				lim := math.MaxFloat64
				if c.Size == 4 {
					lim = math.MaxFloat32
				}
				e := Elem{F: f, WantF: math.Copysign(lim, f), Clamped: true}
				return e, MayErr, "float literal beyond the float64 range"
			}
			e := floatElem(c, f)
			if class == litSilent {
				return e, MayErr, "undocumented float spelling"
			}
			if e.Clamped {
				// the clamp clause speaks of float64 values; a string beyond
				// MaxFloat32 is not mentioned
				return e, MayErr, "float literal beyond MaxFloat32 into F4"
			}
			return e, NoErr, ""
		}
		// other numeric readings the documentation does not mention
		if x, ic := intLiteral(s, false); ic != litInvalid && x != nil {
			e, _ := intoFamily(c, x)
			e.DocErr = ""
			return e, MayErr, "integer-literal spelling for a float item"
		}
		t := strings.ToLower(strings.TrimLeft(s, "+-"))
		if (t == "nan" || t == "inf" || t == "infinity") && len(s)-len(t) <= 1 {
			f := math.NaN()
			if t != "nan" {
				f = math.Inf(1)
				if s[0] == '-' {
					f = math.Inf(-1)
				}
			}
			return Elem{F: f, WantF: f}, MayErr, "NaN/Inf spelling"
		}
		if strings.ContainsAny(s, "pP") && strings.ContainsAny(s, "xX") {
			if bf, _, err := big.ParseFloat(s, 0, 53, big.ToNearestEven); err == nil {
				f, _ := bf.Float64()
				return floatElem(c, f), MayErr, "hexadecimal float spelling"
			}
		}
		return Elem{}, MustErr, "string is not a floating-point literal"
	}
	return Elem{}, MustErr, "unsupported type string"
}
