// Package linktest is a deliberately boring reference model of the automatic-linktest
// failure accounting of go-secs HSMS-SS, written from the PUBLIC DOCUMENTATION, not from the
// implementation:
//
//   - hsms.WithLinktestFailThreshold: "the number of consecutive linktest failures before the
//     connection is considered broken".
//   - hsms.WithLinktestSuppression (suppression ON):
//     (1) a Linktest.req is sent only after a full linktest interval with no HSMS frame sent
//     or received; (2) no Linktest.req is sent while a sent data message is awaiting its
//     reply; (3) a linktest failure (T6 timeout) is not counted toward the disconnect
//     threshold while the link shows other signs of life: a frame arrived after the
//     Linktest.req went out, a data reply is still outstanding, or a frame arrived since the
//     previous counted failure. Only consecutive failures on a silent link accumulate toward
//     the disconnect. The disconnect decision re-checks for signs of life (received frames,
//     or a reply still outstanding) immediately before dropping the link. "Life" is
//     receive-side only plus an outstanding reply: the library's own sends never forgive a
//     failure.
//     (suppression OFF): unconditional periodic linktests; every timeout counts.
//   - the prose above the two pure functions (transport_procedures.go): a frame after the
//     probe or an outstanding reply = credit, the run resets; life between counted failures =
//     the run restarts at 1 with this failure; otherwise the run grows by one; the re-check
//     converts the failure into a credit when a reply became outstanding or a frame arrived
//     after the failure snapshot.
//
// Two formulations are provided on purpose. Step/Recheck are the decision tables of ONE
// failed probe (same inputs as the library's reducer; used for the row-by-row comparison).
// Tracker is a HISTORY formulation that never sees the library's bookkeeping variables: it
// remembers when the probes of the current silent run were sent and counts those sent at
// or after the last received frame.
package linktest

// Snapshot is what is known when a probe has just timed out.
type Snapshot struct {
	Suppress       bool
	RecvNow        int64 // stamp of the last received frame
	SentAt         int64 // stamp of this probe's transmission
	Inflight       int64 // sent data messages still awaiting their reply
	Fails          int   // length of the consecutive-failure run so far
	RecvAtLastFail int64 // RecvNow as it was at the previous counted failure
}

// Outcome of one failed probe.
type Outcome struct {
	Fails          int
	RecvAtLastFail int64
	Credited       bool
}

// Step applies the documented rules to one failed probe.
func Step(s Snapshot) Outcome {
	if !s.Suppress {
		// unconditional linktests: every timeout counts
		return Outcome{Fails: s.Fails + 1, RecvAtLastFail: s.RecvNow}
	}
	frameAfterProbe := s.RecvNow > s.SentAt
	replyOutstanding := s.Inflight >= 1
	switch {
	case frameAfterProbe, replyOutstanding:
		// the link shows life: not counted, the run resets, the mark of the last counted
		// failure stays what it was
		return Outcome{Fails: 0, RecvAtLastFail: s.RecvAtLastFail, Credited: true}
	case s.Fails >= 1 && s.RecvNow > s.RecvAtLastFail:
		// a frame arrived since the previous counted failure: the earlier failures are no
		// longer "consecutive on a silent link"; this one opens a new run
		return Outcome{Fails: 1, RecvAtLastFail: s.RecvNow}
	}
	return Outcome{Fails: s.Fails + 1, RecvAtLastFail: s.RecvNow}
}

// Recheck is the last look before the link is dropped: true = drop it.
func Recheck(suppress bool, inflight, recvNow, sentAt int64) bool {
	if !suppress {
		return true
	}
	lifeNow := inflight >= 1 || recvNow > sentAt
	return !lifeNow
}

// Verdict classifies one failed probe in the history formulation.
type Verdict int

const (
	Counted  Verdict = iota // joins the silent run
	Credited                // not counted; the run is void
)

// Tracker is the history formulation: the consecutive-failure run is the list of
// transmission times of the timed-out probes that (a) follow the last answered or credited
// probe and (b) were sent at or after the last frame received from the peer.
type Tracker struct {
	Suppress  bool
	Threshold int
	run       []int64 // transmission times of the probes of the current silent run
}

// Run is the length of the current silent run.
func (t *Tracker) Run() int { return len(t.run) }

// Answered records a probe that was answered in time.
func (t *Tracker) Answered() { t.run = t.run[:0] }

// TimedOut records a probe sent at sentAt that timed out; lastRecv is the time of the
// last frame received from the peer (any frame), outstanding the number of replies awaited.
func (t *Tracker) TimedOut(sentAt, lastRecv, outstanding int64) Verdict {
	if !t.Suppress {
		t.run = append(t.run, sentAt)
		return Counted
	}
	if lastRecv > sentAt || outstanding > 0 {
		t.run = t.run[:0]
		return Credited
	}
	// drop every earlier failure whose probe went out before the peer was last heard:
	// life between counted failures restarts the run with this failure
	keep := t.run[:0]
	for _, at := range t.run {
		if at >= lastRecv {
			keep = append(keep, at)
		}
	}
	t.run = append(keep, sentAt)
	return Counted
}

// Due reports whether the run has reached the threshold (the drop decision is due).
func (t *Tracker) Due() bool { return len(t.run) >= t.Threshold }

// LastLook is the re-check immediately before dropping (call only when Due): it returns
// true if the link is dropped; otherwise the failure is converted into a credit.
func (t *Tracker) LastLook(sentAt, lastRecv, outstanding int64) bool {
	if t.Suppress && (outstanding > 0 || lastRecv > sentAt) {
		t.run = t.run[:0]
		return false
	}
	return true
}

// Clone returns an independent copy (for tree searches that branch on a state).
func (t Tracker) Clone() Tracker {
	t.run = append([]int64(nil), t.run...)
	return t
}
