// Package peer holds scripted, non-autonomous protocol peers for the connection-level
// checks. HSMS: raw E37 frames built from / parsed into fields, written from the
// standard (it shares no code with the library's codec).
package peer

import (
	"encoding/binary"
	"fmt"
)

// SType values (SEMI E37 table).
const (
	SData        = 0
	SSelectReq   = 1
	SSelectRsp   = 2
	SDeselectReq = 3
	SDeselectRsp = 4
	SLinktestReq = 5
	SLinktestRsp = 6
	SRejectReq   = 7
	SSeparateReq = 9
)

// Frame is one HSMS message as header fields + body.
type Frame struct {
	Session uint16
	B2, B3  byte // data: W<<7|stream, function; control: per-type (status in B3; reject: offending type in B2)
	PType   byte
	SType   byte
	Sys     uint32
	Body    []byte
}

// Bytes serialises the frame (4-byte length, 10-byte header, body).
func (f Frame) Bytes() []byte {
	b := make([]byte, 14+len(f.Body))
	binary.BigEndian.PutUint32(b, uint32(10+len(f.Body)))
	binary.BigEndian.PutUint16(b[4:], f.Session)
	b[6], b[7], b[8], b[9] = f.B2, f.B3, f.PType, f.SType
	binary.BigEndian.PutUint32(b[10:], f.Sys)
	copy(b[14:], f.Body)
	return b
}

func (f Frame) String() string {
	name := map[byte]string{0: "Data", 1: "Select.req", 2: "Select.rsp", 3: "Deselect.req", 4: "Deselect.rsp", 5: "Linktest.req", 6: "Linktest.rsp", 7: "Reject.req", 9: "Separate.req"}[f.SType]
	if name == "" {
		name = fmt.Sprintf("SType%d", f.SType)
	}
	if f.SType == 0 && f.PType == 0 {
		w := ""
		if f.B2&0x80 != 0 {
			w = "W"
		}
		return fmt.Sprintf("S%dF%d%s sid=%04x sys=%08x body=%x", f.B2&0x7F, f.B3, w, f.Session, f.Sys, f.Body)
	}
	return fmt.Sprintf("%s sid=%04x b2=%d b3=%d p=%d sys=%08x body=%x", name, f.Session, f.B2, f.B3, f.PType, f.Sys, f.Body)
}

// Key is a comparable rendering (for exact-frame oracles).
func (f Frame) Key() string { return f.String() }

// Data builds a data message frame.
func Data(session uint16, stream, function byte, w bool, sys uint32, body []byte) Frame {
	b2 := stream & 0x7F
	if w {
		b2 |= 0x80
	}
	return Frame{Session: session, B2: b2, B3: function, SType: SData, Sys: sys, Body: body}
}

// Ctrl builds a control frame.
func Ctrl(stype byte, session uint16, b2, b3 byte, sys uint32) Frame {
	return Frame{Session: session, B2: b2, B3: b3, SType: stype, Sys: sys}
}

// Parser incrementally splits a byte stream into frames.
type Parser struct {
	buf []byte
	Err error
}

// Feed appends bytes and returns the complete frames now available.
func (p *Parser) Feed(b []byte) []Frame {
	p.buf = append(p.buf, b...)
	var out []Frame
	for p.Err == nil && len(p.buf) >= 4 {
		n := int(binary.BigEndian.Uint32(p.buf))
		if n < 10 {
			p.Err = fmt.Errorf("peer: library wrote a frame with length %d < 10", n)
			break
		}
		if len(p.buf) < 4+n {
			break
		}
		fr := p.buf[4 : 4+n]
		out = append(out, Frame{
			Session: binary.BigEndian.Uint16(fr), B2: fr[2], B3: fr[3], PType: fr[4], SType: fr[5],
			Sys: binary.BigEndian.Uint32(fr[6:]), Body: append([]byte(nil), fr[10:]...),
		})
		p.buf = p.buf[4+n:]
	}
	return out
}

// Rest returns the bytes of an incomplete trailing frame.
func (p *Parser) Rest() []byte { return p.buf }
