package peer

// SECS-I (SEMI E4) line peer: the harness end of a sim.Conn speaking the block transfer
// protocol by hand. It is scripted and non-autonomous (the history says what it sends);
// every helper is non-blocking against the bubble: write, settle, drain.

import (
	"fmt"

	"verif/ref/e4"
	"verif/sim"
)

// E4 is a scripted SECS-I line peer on the harness end of a simulated connection.
type E4 struct {
	C      *sim.Conn
	Settle func() // = World.Settle (synctest.Wait)
	in     []byte // bytes the library wrote, not yet consumed
	// Log is a transcript of the line: "> xx" peer wrote, "< xx" library wrote.
	Log []string
	// KeepLog enables the transcript.
	KeepLog bool
}

// NewE4 wraps the harness end of a connection.
func NewE4(c *sim.Conn, settle func()) *E4 { return &E4{C: c, Settle: settle} }

func (p *E4) pull() {
	if b := p.C.Drain(); len(b) > 0 {
		p.in = append(p.in, b...)
		if p.KeepLog {
			p.Log = append(p.Log, fmt.Sprintf("< %x", b))
		}
	}
}

// Write sends raw bytes to the library and settles.
func (p *E4) Write(b ...byte) {
	if p.KeepLog {
		p.Log = append(p.Log, fmt.Sprintf("> %x", b))
	}
	_, _ = p.C.Write(b)
	p.Settle()
}

// Pending returns (without consuming) what the library has written so far.
func (p *E4) Pending() []byte {
	p.pull()
	return p.in
}

// Take consumes and returns up to n bytes the library wrote (n < 0: everything).
func (p *E4) Take(n int) []byte {
	p.pull()
	if n < 0 || n > len(p.in) {
		n = len(p.in)
	}
	b := p.in[:n:n]
	p.in = p.in[n:]
	return b
}

// TakeByte consumes one byte; ok=false if the library wrote nothing.
func (p *E4) TakeByte() (byte, bool) {
	b := p.Take(1)
	if len(b) == 0 {
		return 0, false
	}
	return b[0], true
}

// Expect consumes one byte and requires it to be want.
func (p *E4) Expect(want byte) error {
	b, ok := p.TakeByte()
	if !ok {
		return fmt.Errorf("e4 peer: expected %s, the library wrote nothing", CharName(want))
	}
	if b != want {
		return fmt.Errorf("e4 peer: expected %s, the library wrote %s (then %x)", CharName(want), CharName(b), p.in)
	}
	return nil
}

// CharName renders a handshake character.
func CharName(b byte) string {
	switch b {
	case e4.ENQ:
		return "ENQ"
	case e4.EOT:
		return "EOT"
	case e4.ACK:
		return "ACK"
	case e4.NAK:
		return "NAK"
	}
	return fmt.Sprintf("0x%02x", b)
}

// Bid writes ENQ and requires the library to answer EOT.
func (p *E4) Bid() error {
	p.Write(e4.ENQ)
	return p.Expect(e4.EOT)
}

// SendBlock transmits one block transmission (the complete wire form: length byte,
// header, data, checksum — possibly deliberately wrong): ENQ, expect EOT, the bytes,
// then whatever single character the library answers at once (ok=false: nothing yet —
// the caller advances time and calls Answer).
func (p *E4) SendBlock(wire []byte) (answer byte, ok bool, err error) {
	if err := p.Bid(); err != nil {
		return 0, false, err
	}
	p.Write(wire...)
	answer, ok = p.TakeByte()
	return answer, ok, nil
}

// Answer consumes the library's (late) answer character.
func (p *E4) Answer() (byte, bool) { return p.TakeByte() }

// BidPending reports whether the library is requesting to send (an ENQ is waiting).
func (p *E4) BidPending() bool {
	b := p.Pending()
	return len(b) > 0 && b[0] == e4.ENQ
}

// RecvBlock answers a pending ENQ with EOT, reads one block transmission, verifies
// length and checksum with the reference parser and answers with reply (ACK, or NAK to
// provoke a retransmission; 0 = no answer yet). It returns the parsed block and the raw bytes.
func (p *E4) RecvBlock(reply byte) (e4.Block, []byte, error) {
	if err := p.Expect(e4.ENQ); err != nil {
		return e4.Block{}, nil, err
	}
	p.Write(e4.EOT)
	raw := p.Pending()
	// a bid the sender repeated (its T2 ran out at the very instant this peer answered) sits in front
	// of the block: an ENQ cannot be a length byte (10..254), so it is skipped, not misread
	for len(raw) > 0 && raw[0] == e4.ENQ {
		p.Take(1)
		raw = p.Pending()
	}
	if len(raw) == 0 {
		return e4.Block{}, nil, fmt.Errorf("e4 peer: nothing after EOT")
	}
	n := int(raw[0])
	if n < 10 || n > 254 {
		return e4.Block{}, p.Take(-1), fmt.Errorf("e4 peer: length byte %d outside 10..254 (line: %x): %w", n, raw, e4.ErrLength)
	}
	if len(raw) < 1+n+2 {
		return e4.Block{}, p.Take(-1), fmt.Errorf("e4 peer: short block: length byte %d but only %d bytes follow: %w", n, len(raw)-1, e4.ErrLength)
	}
	raw = p.Take(1 + n + 2)
	blk, err := e4.Parse(raw)
	if err != nil {
		p.Write(e4.NAK)
		return e4.Block{}, raw, err
	}
	if reply != 0 { // 0: the caller answers later (a receiver that is slow to acknowledge)
		p.Write(reply)
	}
	return blk, raw, nil
}
