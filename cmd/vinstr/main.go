// vinstr — build-time AST instrumenter of engine E3.
//
//	vinstr -repo /repo -out <dir> -verif /verif
//
// writes instrumented copies of the non-test sources of the library packages that
// synchronise (hsms, hsmsss, secs1, internal/wire, internal/throttle) and of the
// harness's sim package, plus <dir>/replace.json: an overlay "Replace" map that
// substitutes them and adds the shim packages under the module path
// github.com/arloliu/go-secs/v2/zverif/{vsched,vsync,vatomic}. /repo is never modified.
//
// Rules (a scheduling point = vsched.Point(label)):
//   - import "sync" -> vsync, "sync/atomic" -> vatomic (every shim method starts with a Point)
//   - a Point before and after every statement containing a channel receive or a send
//   - select is rewritten into vsched.Select(...) + switch (the ready-case choice is owned by
//     the scheduler; Go's select picks pseudo-randomly)
//   - range over a channel: Point before the statement and at the top of the body
//   - a Point before close(ch), before calls whose callee name matches (?i)cancel, before go
//   - defer close(x) / defer cancel(): wrapped so the Point runs at defer-execution time
//   - entry Points for methods of types that wrap uninstrumented concurrent containers
//     (replyRegistry: xsync map)
package main

import (
	"bytes"
	"encoding/json"
	"flag"
	"fmt"
	"go/ast"
	"go/parser"
	"go/printer"
	"go/token"
	"os"
	"path/filepath"
	"regexp"
	"strconv"
	"strings"
)

const shimBase = "github.com/arloliu/go-secs/v2/zverif/"

var cancelRe = regexp.MustCompile(`(?i)cancel`)

// receiver types whose methods get an entry Point
var entryPointRecv = map[string]bool{"replyRegistry": true}

type inst struct {
	fset *token.FileSet
	used bool
	nsel int
}

func (in *inst) label(pos token.Pos, what string) *ast.BasicLit {
	p := in.fset.Position(pos)
	return &ast.BasicLit{Kind: token.STRING, Value: strconv.Quote(fmt.Sprintf("%s:%d %s", filepath.Base(p.Filename), p.Line, what))}
}

func (in *inst) point(pos token.Pos, what string) ast.Stmt {
	in.used = true
	return &ast.ExprStmt{X: &ast.CallExpr{
		Fun:  &ast.SelectorExpr{X: ast.NewIdent("vsched"), Sel: ast.NewIdent("Point")},
		Args: []ast.Expr{in.label(pos, what)},
	}}
}

func isNilNode(n ast.Node) bool {
	if n == nil {
		return true
	}
	switch v := n.(type) {
	case ast.Expr:
		return v == nil
	case ast.Stmt:
		return v == nil
	}
	return false
}

// hasRecv: n contains a channel receive outside nested function literals / blocks.
func hasRecv(n ast.Node) bool {
	if isNilNode(n) {
		return false
	}
	found := false
	ast.Inspect(n, func(x ast.Node) bool {
		if found {
			return false
		}
		switch v := x.(type) {
		case *ast.FuncLit:
			return false
		case *ast.BlockStmt:
			return false
		case *ast.UnaryExpr:
			if v.Op == token.ARROW {
				found = true
			}
		}
		return true
	})
	return found
}

func hasCancelOrClose(n ast.Node) string {
	if isNilNode(n) {
		return ""
	}
	found := ""
	ast.Inspect(n, func(x ast.Node) bool {
		if found != "" {
			return false
		}
		switch v := x.(type) {
		case *ast.FuncLit, *ast.BlockStmt:
			return false
		case *ast.CallExpr:
			switch f := v.Fun.(type) {
			case *ast.Ident:
				if f.Name == "close" {
					found = "close"
				} else if cancelRe.MatchString(f.Name) && len(v.Args) == 0 {
					found = "cancel"
				}
			case *ast.SelectorExpr:
				if cancelRe.MatchString(f.Sel.Name) && len(v.Args) == 0 {
					found = "cancel"
				}
			}
		}
		return true
	})
	return found
}

func (in *inst) stmts(list []ast.Stmt) []ast.Stmt {
	var out []ast.Stmt
	for _, s := range list {
		if sel, ok := s.(*ast.SelectStmt); ok {
			out = append(out, in.rewriteSelect(sel, nil))
			continue
		}
		if ls, ok := s.(*ast.LabeledStmt); ok {
			if sel, ok := ls.Stmt.(*ast.SelectStmt); ok {
				out = append(out, in.rewriteSelect(sel, ls.Label))
				continue
			}
		}
		pre, post := in.stmt(s)
		out = append(out, pre...)
		out = append(out, s)
		out = append(out, post...)
	}
	return out
}

// stmt instruments s in place (children) and returns statements to put before/after it.
func (in *inst) stmt(s ast.Stmt) (pre, post []ast.Stmt) {
	switch v := s.(type) {
	case *ast.BlockStmt:
		v.List = in.stmts(v.List)
	case *ast.IfStmt:
		if hasRecv(v.Init) || hasRecv(v.Cond) {
			pre = append(pre, in.point(v.Pos(), "recv"))
		}
		in.funcLits(v.Init)
		in.funcLits(v.Cond)
		v.Body.List = in.stmts(v.Body.List)
		if v.Else != nil {
			in.stmt(v.Else)
		}
	case *ast.ForStmt:
		in.funcLits(v.Init)
		in.funcLits(v.Cond)
		in.funcLits(v.Post)
		v.Body.List = in.stmts(v.Body.List)
	case *ast.RangeStmt:
		in.funcLits(v.X)
		v.Body.List = in.stmts(v.Body.List)
		if isSimple(v.X) {
			in.used = true
			mk := func() ast.Stmt {
				return &ast.ExprStmt{X: &ast.CallExpr{
					Fun:  &ast.SelectorExpr{X: ast.NewIdent("vsched"), Sel: ast.NewIdent("RangePoint")},
					Args: []ast.Expr{v.X, in.label(v.Pos(), "range")},
				}}
			}
			pre = append(pre, mk())
			v.Body.List = append([]ast.Stmt{mk()}, v.Body.List...)
		}
	case *ast.SwitchStmt:
		in.funcLits(v.Init)
		in.funcLits(v.Tag)
		if hasRecv(v.Init) || hasRecv(v.Tag) {
			pre = append(pre, in.point(v.Pos(), "recv"))
		}
		for _, c := range v.Body.List {
			cc := c.(*ast.CaseClause)
			cc.Body = in.stmts(cc.Body)
		}
	case *ast.TypeSwitchStmt:
		for _, c := range v.Body.List {
			cc := c.(*ast.CaseClause)
			cc.Body = in.stmts(cc.Body)
		}
	case *ast.SelectStmt:
		panic("select must be rewritten by stmts")
	case *ast.SendStmt:
		in.funcLits(v.Value)
		pre = append(pre, in.point(v.Pos(), "send"))
		post = append(post, in.point(v.Pos(), "send.done"))
	case *ast.GoStmt:
		in.funcLits(v.Call)
		pre = append(pre, in.point(v.Pos(), "go"))
	case *ast.DeferStmt:
		in.funcLits(v.Call)
		if k := hasCancelOrClose(v.Call); k != "" {
			// arguments of `defer close(ch)` / `defer cancel()` are plain identifiers/selectors in
			// this code base, so moving their evaluation to defer-execution time is harmless.
			orig := v.Call
			v.Call = &ast.CallExpr{Fun: &ast.FuncLit{
				Type: &ast.FuncType{Params: &ast.FieldList{}},
				Body: &ast.BlockStmt{List: []ast.Stmt{in.point(v.Pos(), "defer."+k), &ast.ExprStmt{X: orig}}},
			}}
		}
	case *ast.LabeledStmt:
		p, q := in.stmt(v.Stmt)
		pre, post = p, q
	case *ast.ExprStmt, *ast.AssignStmt, *ast.ReturnStmt, *ast.DeclStmt, *ast.IncDecStmt:
		in.funcLits(s)
		if hasRecv(s) {
			pre = append(pre, in.point(s.Pos(), "recv"))
			if _, isRet := s.(*ast.ReturnStmt); !isRet {
				post = append(post, in.point(s.Pos(), "recv.done"))
			}
		} else if k := hasCancelOrClose(s); k != "" {
			pre = append(pre, in.point(s.Pos(), k))
		}
	}
	return
}

func sel(x, name string) ast.Expr {
	return &ast.SelectorExpr{X: ast.NewIdent(x), Sel: ast.NewIdent(name)}
}

// rewriteSelect turns a select statement into a scheduler-mediated switch.
func (in *inst) rewriteSelect(ss *ast.SelectStmt, lbl *ast.Ident) ast.Stmt {
	in.used = true
	in.nsel++
	id := fmt.Sprintf("_vs%d", in.nsel)
	block := &ast.BlockStmt{}
	var caseIdents []ast.Expr
	hasDefault := false
	sw := &ast.SwitchStmt{Tag: sel(id, "I"), Body: &ast.BlockStmt{}}
	idx := 0
	for _, c := range ss.Body.List {
		cc := c.(*ast.CommClause)
		body := in.stmts(cc.Body)
		if cc.Comm == nil {
			hasDefault = true
			sw.Body.List = append(sw.Body.List, &ast.CaseClause{List: nil,
				Body: append([]ast.Stmt{in.point(cc.Pos(), "select.default")}, body...)})
			continue
		}
		cid := fmt.Sprintf("%s_c%d", id, idx)
		var decl ast.Expr
		var bind ast.Stmt
		switch cm := cc.Comm.(type) {
		case *ast.SendStmt:
			in.funcLits(cm.Value)
			decl = &ast.CallExpr{Fun: sel("vsched", "S"), Args: []ast.Expr{cm.Chan, cm.Value}}
		case *ast.ExprStmt:
			u := unparen(cm.X).(*ast.UnaryExpr)
			decl = &ast.CallExpr{Fun: sel("vsched", "R"), Args: []ast.Expr{u.X}}
		case *ast.AssignStmt:
			u := unparen(cm.Rhs[0]).(*ast.UnaryExpr)
			decl = &ast.CallExpr{Fun: sel("vsched", "R"), Args: []ast.Expr{u.X}}
			m := "Val"
			if len(cm.Lhs) == 2 {
				m = "Val2"
			}
			bind = &ast.AssignStmt{Lhs: cm.Lhs, Tok: cm.Tok, Rhs: []ast.Expr{
				&ast.CallExpr{Fun: sel(cid, m), Args: []ast.Expr{ast.NewIdent(id)}}}}
		default:
			panic("unknown comm clause")
		}
		block.List = append(block.List, &ast.AssignStmt{Lhs: []ast.Expr{ast.NewIdent(cid)}, Tok: token.DEFINE, Rhs: []ast.Expr{decl}})
		caseIdents = append(caseIdents, ast.NewIdent(cid))
		cbody := []ast.Stmt{}
		if bind != nil {
			cbody = append(cbody, bind)
			// silence "declared and not used" for a bound variable the clause body ignores
			if as := bind.(*ast.AssignStmt); as.Tok == token.DEFINE {
				for _, l := range as.Lhs {
					if idn, ok := l.(*ast.Ident); ok && idn.Name != "_" {
						cbody = append(cbody, &ast.AssignStmt{Lhs: []ast.Expr{ast.NewIdent("_")}, Tok: token.ASSIGN, Rhs: []ast.Expr{ast.NewIdent(idn.Name)}})
					}
				}
			}
		}
		cbody = append(cbody, in.point(cc.Pos(), "select.case"))
		cbody = append(cbody, body...)
		sw.Body.List = append(sw.Body.List, &ast.CaseClause{
			List: []ast.Expr{&ast.BasicLit{Kind: token.INT, Value: strconv.Itoa(idx)}}, Body: cbody})
		idx++
	}
	hd := "false"
	if hasDefault {
		hd = "true"
	} else {
		sw.Body.List = append(sw.Body.List, &ast.CaseClause{List: nil, Body: []ast.Stmt{
			&ast.ExprStmt{X: &ast.CallExpr{Fun: ast.NewIdent("panic"), Args: []ast.Expr{&ast.BasicLit{Kind: token.STRING, Value: strconv.Quote("vsched: unreachable select index")}}}}}})
	}
	args := []ast.Expr{in.label(ss.Pos(), "select"), ast.NewIdent(hd)}
	args = append(args, caseIdents...)
	block.List = append(block.List,
		&ast.AssignStmt{Lhs: []ast.Expr{ast.NewIdent(id)}, Tok: token.DEFINE,
			Rhs: []ast.Expr{&ast.CallExpr{Fun: sel("vsched", "Select"), Args: args}}})
	block.List = append(block.List, sw)
	if lbl != nil && hasBareContinue(ss) {
		// an unlabeled continue in a case targets an enclosing loop: the wrapper loop below would
		// capture it. Keep the label on the switch (break L works, goto L would not re-evaluate).
		block.List[len(block.List)-1] = &ast.LabeledStmt{Label: lbl, Stmt: sw}
		return block
	}
	if lbl != nil {
		// a labeled select: `goto L` must re-evaluate the whole select (cases and the scheduler
		// decision). Without a `break L` in its cases the label goes on the rewritten BLOCK (which
		// keeps the statement terminating where the select was); with one, on a one-pass loop
		// around it: L: for { cases...; Select; switch {...}; break }
		if !hasLabeledBreak(ss, lbl.Name) {
			return &ast.LabeledStmt{Label: lbl, Stmt: block}
		}
		block.List = append(block.List, &ast.BranchStmt{Tok: token.BREAK})
		return &ast.LabeledStmt{Label: lbl, Stmt: &ast.ForStmt{Body: block}}
	}
	return block
}

func hasLabeledBreak(ss *ast.SelectStmt, name string) bool {
	found := false
	ast.Inspect(ss.Body, func(n ast.Node) bool {
		if b, ok := n.(*ast.BranchStmt); ok && b.Tok == token.BREAK && b.Label != nil && b.Label.Name == name {
			found = true
		}
		return !found
	})
	return found
}

// hasBareContinue reports an unlabeled continue inside the select's cases that would bind to a
// loop outside the select (nested loops and function literals are skipped).
func hasBareContinue(ss *ast.SelectStmt) bool {
	found := false
	var walk func(n ast.Node) bool
	walk = func(n ast.Node) bool {
		switch v := n.(type) {
		case *ast.FuncLit, *ast.ForStmt, *ast.RangeStmt:
			return false
		case *ast.BranchStmt:
			if v.Tok == token.CONTINUE && v.Label == nil {
				found = true
			}
		}
		return !found
	}
	ast.Inspect(ss.Body, walk)
	return found
}

func unparen(e ast.Expr) ast.Expr {
	for {
		p, ok := e.(*ast.ParenExpr)
		if !ok {
			return e
		}
		e = p.X
	}
}

func isSimple(e ast.Expr) bool {
	switch v := e.(type) {
	case *ast.Ident:
		return true
	case *ast.SelectorExpr:
		return isSimple(v.X)
	case *ast.StarExpr:
		return isSimple(v.X)
	}
	return false
}

// funcLits instruments the bodies of function literals nested in n.
func (in *inst) funcLits(n ast.Node) {
	if isNilNode(n) {
		return
	}
	ast.Inspect(n, func(x ast.Node) bool {
		if fl, ok := x.(*ast.FuncLit); ok {
			fl.Body.List = in.stmts(fl.Body.List)
			return false
		}
		return true
	})
}

func recvTypeName(fd *ast.FuncDecl) string {
	if fd.Recv == nil || len(fd.Recv.List) == 0 {
		return ""
	}
	t := fd.Recv.List[0].Type
	if s, ok := t.(*ast.StarExpr); ok {
		t = s.X
	}
	if ix, ok := t.(*ast.IndexExpr); ok {
		t = ix.X
	}
	if id, ok := t.(*ast.Ident); ok {
		return id.Name
	}
	return ""
}

func instrumentFile(src, dst string) (bool, error) {
	fset := token.NewFileSet()
	f, err := parser.ParseFile(fset, src, nil, parser.ParseComments)
	if err != nil {
		return false, err
	}
	// keep build constraints: a file excluded by its constraints must stay excluded
	var header []string
	for _, cg := range f.Comments {
		if cg.Pos() >= f.Package {
			break
		}
		for _, c := range cg.List {
			if strings.HasPrefix(c.Text, "//go:build") || strings.HasPrefix(c.Text, "// +build") {
				header = append(header, c.Text)
			}
		}
	}
	in := &inst{fset: fset}
	changed := false
	for _, imp := range f.Imports {
		p, _ := strconv.Unquote(imp.Path.Value)
		switch p {
		case "sync":
			imp.Path.Value = strconv.Quote(shimBase + "vsync")
			imp.Name = ast.NewIdent("sync")
			changed = true
		case "sync/atomic":
			imp.Path.Value = strconv.Quote(shimBase + "vatomic")
			imp.Name = ast.NewIdent("atomic")
			changed = true
		}
	}
	for _, d := range f.Decls {
		if fd, ok := d.(*ast.FuncDecl); ok && fd.Body != nil {
			fd.Body.List = in.stmts(fd.Body.List)
			if entryPointRecv[recvTypeName(fd)] {
				fd.Body.List = append([]ast.Stmt{in.point(fd.Pos(), "enter "+fd.Name.Name)}, fd.Body.List...)
			}
		} else if gd, ok := d.(*ast.GenDecl); ok {
			// package-level function literals (var x = func() {...})
			in.funcLits(gd)
		}
	}
	if !in.used && !changed {
		return false, nil
	}
	var buf bytes.Buffer
	f.Comments = nil // positions of comments no longer match the rewritten tree
	if err := printer.Fprint(&buf, fset, f); err != nil {
		return false, err
	}
	text := buf.String()
	if in.used {
		pk := "package " + f.Name.Name
		i := strings.Index(text, pk)
		text = text[:i+len(pk)] + "\n\nimport vsched \"" + shimBase + "vsched\"\n" + text[i+len(pk):]
	}
	if len(header) > 0 {
		text = strings.Join(header, "\n") + "\n\n" + text
	}
	if err := os.MkdirAll(filepath.Dir(dst), 0o755); err != nil {
		return false, err
	}
	return true, os.WriteFile(dst, []byte(text), 0o644)
}

func main() {
	repo := flag.String("repo", "/repo", "library checkout")
	out := flag.String("out", "", "output directory")
	verif := flag.String("verif", "/verif", "verification tree (shim sources, sim)")
	flag.Parse()
	if *out == "" {
		fmt.Fprintln(os.Stderr, "vinstr: -out required")
		os.Exit(2)
	}
	_ = os.RemoveAll(*out)
	replace := map[string]string{}
	type pkg struct{ dir, sub string }
	pkgs := []pkg{
		{filepath.Join(*repo, "hsms"), "repo/hsms"},
		{filepath.Join(*repo, "hsmsss"), "repo/hsmsss"},
		{filepath.Join(*repo, "secs1"), "repo/secs1"},
		// no synchronisation in these today: instrumenting them is the identity, but a change that
		// adds an atomic, a mutex or a sync.Once to an item type gets its scheduling points
		{filepath.Join(*repo, "secs2"), "repo/secs2"},
		{filepath.Join(*repo, "sml"), "repo/sml"},
		{filepath.Join(*repo, "internal/wire"), "repo/internal/wire"},
		{filepath.Join(*repo, "internal/throttle"), "repo/internal/throttle"},
		{filepath.Join(*verif, "sim"), "verif/sim"},
	}
	n := 0
	for _, p := range pkgs {
		ents, err := os.ReadDir(p.dir)
		if err != nil {
			fmt.Fprintln(os.Stderr, "vinstr:", err)
			os.Exit(2)
		}
		for _, e := range ents {
			name := e.Name()
			if e.IsDir() || !strings.HasSuffix(name, ".go") || strings.HasSuffix(name, "_test.go") {
				continue
			}
			src := filepath.Join(p.dir, name)
			dst := filepath.Join(*out, p.sub, name)
			ok, err := instrumentFile(src, dst)
			if err != nil {
				fmt.Fprintf(os.Stderr, "vinstr: %s: %v\n", src, err)
				os.Exit(2)
			}
			if ok {
				replace[src] = dst
				n++
			}
		}
	}
	for _, sp := range []string{"vsched", "vsync", "vatomic"} {
		ents, _ := os.ReadDir(filepath.Join(*verif, "shim", sp))
		for _, e := range ents {
			if strings.HasSuffix(e.Name(), ".go") {
				replace[filepath.Join(*repo, "zverif", sp, e.Name())] = filepath.Join(*verif, "shim", sp, e.Name())
			}
		}
	}
	b, _ := json.MarshalIndent(replace, "", " ")
	if err := os.WriteFile(filepath.Join(*out, "replace.json"), b, 0o644); err != nil {
		fmt.Fprintln(os.Stderr, "vinstr:", err)
		os.Exit(2)
	}
	fmt.Printf("vinstr: %d files instrumented\n", n)
}
