// Package gen enumerates SECS-II items built through the public constructors together
// with the reference value (ref/e5.Val) each must denote. All enumerations are
// deterministic and complete for the stated grid; nothing is sampled.
package gen

import (
	"fmt"
	"math"
	"reflect"
	"strconv"

	"github.com/arloliu/go-secs/v2/secs2"

	"verif/ref/e5"
)

// Case is one constructed item with its reference value.
type Case struct {
	Desc string
	It   secs2.Item
	Ref  *e5.Val
	Big  bool // payload >= 64 KiB (callers may thin out expensive oracles)
}

// built constructs an item from private copies of the slice arguments and then overwrites those
// copies: what a constructor was given is the caller's again as soon as it returns, and an item
// that kept it would now encode something else than the reference value.
func built[T secs2.Item](ctor func(...any) T, args []any) secs2.Item {
	cp := make([]any, len(args))
	for i, a := range args {
		v := reflect.ValueOf(a)
		if v.IsValid() && v.Kind() == reflect.Slice {
			c := reflect.MakeSlice(v.Type(), v.Len(), v.Len())
			reflect.Copy(c, v)
			cp[i] = c.Interface()
		} else {
			cp[i] = a
		}
	}
	it := ctor(cp...)
	for _, a := range cp {
		v := reflect.ValueOf(a)
		if !v.IsValid() || v.Kind() != reflect.Slice {
			continue
		}
		for j := 0; j < v.Len(); j++ {
			e := v.Index(j)
			switch e.Kind() {
			case reflect.Int, reflect.Int8, reflect.Int16, reflect.Int32, reflect.Int64:
				e.SetInt(^e.Int())
			case reflect.Uint, reflect.Uint8, reflect.Uint16, reflect.Uint32, reflect.Uint64:
				e.SetUint(^e.Uint())
			case reflect.Float32, reflect.Float64:
				e.SetFloat(-e.Float() - 1)
			case reflect.Bool:
				e.SetBool(!e.Bool())
			case reflect.String:
				e.SetString("7" + e.String())
			}
		}
	}
	return it
}

// Grid selects how much of the leaf grid is produced.
type Grid struct {
	Caps      []byte // format codes for which the 2^24-1 cap counts are included
	AllShapes bool   // every Go argument type; otherwise the natural and the narrowest type
}

var intFCs = []byte{e5.I1, e5.I2, e5.I4, e5.I8}
var uintFCs = []byte{e5.U1, e5.U2, e5.U4, e5.U8}
var floatFCs = []byte{e5.F4, e5.F8}

// Counts returns the element counts explored for an element width w: 0,1,2,3 and the
// counts at which the payload crosses 255/256 and 65535/65536, plus (cap) the largest
// legal count.
func Counts(w int, cap bool) []int {
	cs := []int{0, 1, 2, 3}
	add := func(n int) {
		for _, c := range cs {
			if c == n {
				return
			}
		}
		if n >= 0 {
			cs = append(cs, n)
		}
	}
	add(255 / w)
	add(255/w + 1)
	add(65535 / w)
	add(65535/w + 1)
	if cap {
		add(e5.MaxLen / w)
	}
	return cs
}

func signExt(u uint64, w int) int64 {
	sh := uint(64 - 8*w)
	return int64(u<<sh) >> sh
}

func mask(w int) uint64 {
	if w == 8 {
		return ^uint64(0)
	}
	return 1<<(8*uint(w)) - 1
}

// distinct returns the byte-distinct pattern 0x0102..0w (+ i*0x0101.. so that
// neighbours differ in every byte).
func distinct(w, i int) uint64 {
	var base, step uint64
	for k := 1; k <= w; k++ {
		base = base<<8 | uint64(k)
		step = step<<8 | 1
	}
	return (base + uint64(i)*step*3) & mask(w)
}

// IntPatterns: name -> element function.
var intPatternNames = []string{"zero", "one", "neg1", "min", "max", "distinct", "negdistinct", "alt"}

func intElem(p string, w, i int) int64 {
	minV := signExt(1<<(8*uint(w)-1), w)
	maxV := int64(mask(w) >> 1)
	switch p {
	case "zero":
		return 0
	case "one":
		return 1
	case "neg1":
		return -1
	case "min":
		return minV
	case "max":
		return maxV
	case "distinct":
		return signExt(distinct(w, i), w)
	case "negdistinct":
		return signExt((^distinct(w, i))&mask(w), w)
	default: // alt: min,max,0,-1,1 cycling
		return []int64{minV, maxV, 0, -1, 1}[i%5]
	}
}

var uintPatternNames = []string{"zero", "one", "max", "distinct", "hibit", "alt"}

func uintElem(p string, w, i int) uint64 {
	switch p {
	case "zero":
		return 0
	case "one":
		return 1
	case "max":
		return mask(w)
	case "distinct":
		return distinct(w, i)
	case "hibit":
		return (1<<(8*uint(w)-1) + uint64(i)) & mask(w)
	default:
		return []uint64{mask(w), 0, 1, mask(w) >> 1, mask(w)>>1 + 1}[i%5]
	}
}

var floatPatternNames = []string{"zero", "negzero", "one", "neg1", "max", "negmax", "tiny", "nan", "inf", "neginf", "distinct", "tenth", "alt"}

func floatElem(p string, w, i int) float64 {
	switch p {
	case "zero":
		return 0
	case "negzero":
		return math.Copysign(0, -1)
	case "one":
		return 1
	case "neg1":
		return -1
	case "max":
		if w == 4 {
			return math.MaxFloat32
		}
		return math.MaxFloat64
	case "negmax":
		if w == 4 {
			return -math.MaxFloat32
		}
		return -math.MaxFloat64
	case "tiny":
		if w == 4 {
			return math.SmallestNonzeroFloat32
		}
		return math.SmallestNonzeroFloat64
	case "nan":
		return math.NaN()
	case "inf":
		return math.Inf(1)
	case "neginf":
		return math.Inf(-1)
	case "distinct":
		if w == 4 {
			return float64(math.Float32frombits(uint32(distinct(4, i))))
		}
		return math.Float64frombits(distinct(8, i))
	case "tenth":
		if w == 4 {
			return float64(float32(0.1) * float32(i+1))
		}
		return 0.1 * float64(i+1)
	default:
		if w == 4 {
			return []float64{-math.MaxFloat32, 1.5, math.Copysign(0, -1), math.Inf(1), float64(float32(1) / 3)}[i%5]
		}
		return []float64{-math.MaxFloat64, 1.5, math.Copysign(0, -1), math.Inf(1), 1.0 / 3}[i%5]
	}
}

// shaping helpers ---------------------------------------------------------------------

type number interface {
	~int | ~int8 | ~int16 | ~int32 | ~int64 | ~uint | ~uint8 | ~uint16 | ~uint32 | ~uint64 | ~float32 | ~float64
}

func conv[T number, S number](xs []S) []T {
	r := make([]T, len(xs))
	for i, x := range xs {
		r[i] = T(x)
	}
	return r
}

func scalars[T any](xs []T) []any {
	r := make([]any, len(xs))
	for i, x := range xs {
		r[i] = x
	}
	return r
}

// shapesOf returns the argument lists (by shape name) for one typed slice.
func shapesOf[T any](tname string, xs []T, small bool) map[string][]any {
	m := map[string][]any{}
	m["slice:"+tname] = []any{append([]T{}, xs...)}
	if small {
		m["scalars:"+tname] = scalars(xs)
		if len(xs) >= 2 {
			m["mixed:"+tname] = []any{xs[0], append([]T{}, xs[1:]...)}
			m["mixed2:"+tname] = []any{append([]T{}, xs[:1]...), xs[1], append([]T{}, xs[2:]...)}
		}
	}
	return m
}

func fitsI(xs []int64, lo, hi int64) bool {
	for _, x := range xs {
		if x < lo || x > hi {
			return false
		}
	}
	return true
}
func fitsU(xs []uint64, hi uint64) bool {
	for _, x := range xs {
		if x > hi {
			return false
		}
	}
	return true
}

func merge(dst map[string][]any, src map[string][]any) {
	for k, v := range src {
		dst[k] = v
	}
}

// IntArgShapes enumerates the argument lists that denote exactly the int64 values xs
// for a signed-integer constructor (all xs are within the item's width).
func IntArgShapes(xs []int64, all bool) map[string][]any {
	small := len(xs) <= 3
	m := map[string][]any{}
	merge(m, shapesOf("int64", xs, small))
	if !all && !small {
		return m
	}
	if fitsI(xs, math.MinInt, math.MaxInt) {
		merge(m, shapesOf("int", conv[int](xs), small))
	}
	if fitsI(xs, math.MinInt8, math.MaxInt8) {
		merge(m, shapesOf("int8", conv[int8](xs), small))
	}
	if fitsI(xs, math.MinInt16, math.MaxInt16) {
		merge(m, shapesOf("int16", conv[int16](xs), small))
	}
	if fitsI(xs, math.MinInt32, math.MaxInt32) {
		merge(m, shapesOf("int32", conv[int32](xs), small))
	}
	if fitsI(xs, 0, math.MaxInt64) {
		merge(m, shapesOf("uint", conv[uint](xs), small))
		merge(m, shapesOf("uint64", conv[uint64](xs), small))
	}
	if fitsI(xs, 0, math.MaxUint8) {
		merge(m, shapesOf("uint8", conv[uint8](xs), small))
	}
	if fitsI(xs, 0, math.MaxUint16) {
		merge(m, shapesOf("uint16", conv[uint16](xs), small))
	}
	if fitsI(xs, 0, math.MaxUint32) {
		merge(m, shapesOf("uint32", conv[uint32](xs), small))
	}
	if small || all && len(xs) <= 300 {
		ss := make([]string, len(xs))
		hs := make([]string, len(xs))
		for i, x := range xs {
			ss[i] = strconv.FormatInt(x, 10)
			if x >= 0 {
				hs[i] = "0x" + strconv.FormatInt(x, 16)
			} else {
				hs[i] = "-0x" + strconv.FormatUint(uint64(-(x+1))+1, 16)
			}
		}
		merge(m, shapesOf("decstr", ss, small))
		merge(m, shapesOf("hexstr", hs, small))
	}
	return m
}

// UintArgShapes: same for unsigned constructors.
func UintArgShapes(xs []uint64, all bool) map[string][]any {
	small := len(xs) <= 3
	m := map[string][]any{}
	merge(m, shapesOf("uint64", xs, small))
	if !all && !small {
		return m
	}
	merge(m, shapesOf("uint", conv[uint](xs), small))
	if fitsU(xs, math.MaxUint8) {
		merge(m, shapesOf("uint8", conv[uint8](xs), small))
	}
	if fitsU(xs, math.MaxUint16) {
		merge(m, shapesOf("uint16", conv[uint16](xs), small))
	}
	if fitsU(xs, math.MaxUint32) {
		merge(m, shapesOf("uint32", conv[uint32](xs), small))
	}
	if fitsU(xs, math.MaxInt64) {
		merge(m, shapesOf("int", conv[int](xs), small))
		merge(m, shapesOf("int64", conv[int64](xs), small))
	}
	if fitsU(xs, math.MaxInt8) {
		merge(m, shapesOf("int8", conv[int8](xs), small))
	}
	if fitsU(xs, math.MaxInt16) {
		merge(m, shapesOf("int16", conv[int16](xs), small))
	}
	if fitsU(xs, math.MaxInt32) {
		merge(m, shapesOf("int32", conv[int32](xs), small))
	}
	if small || all && len(xs) <= 300 {
		ss := make([]string, len(xs))
		hs := make([]string, len(xs))
		for i, x := range xs {
			ss[i] = strconv.FormatUint(x, 10)
			hs[i] = "0x" + strconv.FormatUint(x, 16)
		}
		merge(m, shapesOf("decstr", ss, small))
		merge(m, shapesOf("hexstr", hs, small))
	}
	return m
}

// FloatArgShapes: argument lists denoting exactly xs (w = 4: every x is float32-exact
// unless named otherwise by the caller).
func FloatArgShapes(xs []float64, w int, all bool) map[string][]any {
	small := len(xs) <= 3
	m := map[string][]any{}
	merge(m, shapesOf("float64", xs, small))
	if !all && !small {
		return m
	}
	f32ok, intok, nonneg := true, true, true
	for _, x := range xs {
		if math.Float64bits(float64(float32(x))) != math.Float64bits(x) {
			f32ok = false // not exactly expressible as a float32 argument (incl. NaN payloads)
		}
		if x != math.Trunc(x) || math.Abs(x) > 1<<53 || math.IsNaN(x) || math.IsInf(x, 0) || (x == 0 && math.Signbit(x)) {
			intok = false
		}
		if x < 0 {
			nonneg = false
		}
	}
	if f32ok {
		merge(m, shapesOf("float32", conv[float32](xs), small))
	}
	if intok {
		merge(m, shapesOf("int", conv[int](xs), small))
		merge(m, shapesOf("int64", conv[int64](xs), small))
		if nonneg {
			merge(m, shapesOf("uint", conv[uint](xs), small))
			merge(m, shapesOf("uint64", conv[uint64](xs), small))
		}
		ok8, ok16, ok32 := true, true, true
		for _, x := range xs {
			if math.Abs(x) > 127 {
				ok8 = false
			}
			if math.Abs(x) > 32767 {
				ok16 = false
			}
			if math.Abs(x) > math.MaxInt32 {
				ok32 = false
			}
		}
		if ok8 {
			merge(m, shapesOf("int8", conv[int8](xs), small))
		}
		if ok16 {
			merge(m, shapesOf("int16", conv[int16](xs), small))
		}
		if ok32 {
			merge(m, shapesOf("int32", conv[int32](xs), small))
		}
		if nonneg && ok8 {
			merge(m, shapesOf("uint8", conv[uint8](xs), small))
		}
		if nonneg && ok16 {
			merge(m, shapesOf("uint16", conv[uint16](xs), small))
		}
		if nonneg && ok32 {
			merge(m, shapesOf("uint32", conv[uint32](xs), small))
		}
	}
	if small || all && len(xs) <= 300 {
		ss := make([]string, len(xs))
		strok := true
		for i, x := range xs {
			ss[i] = strconv.FormatFloat(x, 'g', -1, 64)
			if back, err := strconv.ParseFloat(ss[i], 64); err != nil || math.Float64bits(back) != math.Float64bits(x) {
				strok = false // a NaN payload has no decimal spelling
			}
		}
		if strok {
			merge(m, shapesOf("str", ss, small))
		}
	}
	_ = w
	return m
}

func sortedKeys(m map[string][]any) []string {
	ks := make([]string, 0, len(m))
	for k := range m {
		ks = append(ks, k)
	}
	// insertion sort (tiny)
	for i := 1; i < len(ks); i++ {
		for j := i; j > 0 && ks[j] < ks[j-1]; j-- {
			ks[j], ks[j-1] = ks[j-1], ks[j]
		}
	}
	return ks
}

func intCtor(fc byte, short bool) func(...any) secs2.Item {
	w := e5.Width(fc)
	if short {
		return map[int]func(...any) secs2.Item{1: secs2.I1, 2: secs2.I2, 4: secs2.I4, 8: secs2.I8}[w]
	}
	return func(a ...any) secs2.Item { return secs2.NewIntItem(w, a...) }
}
func uintCtor(fc byte, short bool) func(...any) secs2.Item {
	w := e5.Width(fc)
	if short {
		return map[int]func(...any) secs2.Item{1: secs2.U1, 2: secs2.U2, 4: secs2.U4, 8: secs2.U8}[w]
	}
	return func(a ...any) secs2.Item { return secs2.NewUintItem(w, a...) }
}
func floatCtor(fc byte, short bool) func(...any) secs2.Item {
	w := e5.Width(fc)
	if short {
		return map[int]func(...any) secs2.Item{4: secs2.F4, 8: secs2.F8}[w]
	}
	return func(a ...any) secs2.Item { return secs2.NewFloatItem(w, a...) }
}

func has(bs []byte, b byte) bool {
	for _, x := range bs {
		if x == b {
			return true
		}
	}
	return false
}

// Leaves enumerates the leaf grid. yield returns false to stop.
func Leaves(g Grid, yield func(Case) bool) {
	ok := true
	emit := func(c Case) {
		if ok {
			ok = yield(c)
		}
	}
	for _, fc := range intFCs {
		w := e5.Width(fc)
		for _, n := range Counts(w, has(g.Caps, fc)) {
			pats := intPatternNames
			if n*w > 70000 {
				pats = []string{"distinct", "alt"}
			} else if n == 0 {
				pats = []string{"zero"}
			}
			for _, p := range pats {
				xs := make([]int64, n)
				for i := range xs {
					xs[i] = intElem(p, w, i)
				}
				ref := &e5.Val{FC: fc, I: xs}
				sh := IntArgShapes(xs, g.AllShapes && n*w <= 70000)
				for _, k := range sortedKeys(sh) {
					for _, short := range []bool{false, true} {
						if short && n > 3 {
							continue
						}
						emit(Case{Desc: fmt.Sprintf("I%d n=%d pat=%s shape=%s short=%v", w, n, p, k, short),
							It: built(intCtor(fc, short), sh[k]), Ref: ref, Big: n*w >= 65536})
						if !ok {
							return
						}
					}
				}
			}
		}
	}
	for _, fc := range uintFCs {
		w := e5.Width(fc)
		for _, n := range Counts(w, has(g.Caps, fc)) {
			pats := uintPatternNames
			if n*w > 70000 {
				pats = []string{"distinct", "alt"}
			} else if n == 0 {
				pats = []string{"zero"}
			}
			for _, p := range pats {
				xs := make([]uint64, n)
				for i := range xs {
					xs[i] = uintElem(p, w, i)
				}
				ref := &e5.Val{FC: fc, U: xs}
				sh := UintArgShapes(xs, g.AllShapes && n*w <= 70000)
				for _, k := range sortedKeys(sh) {
					for _, short := range []bool{false, true} {
						if short && n > 3 {
							continue
						}
						emit(Case{Desc: fmt.Sprintf("U%d n=%d pat=%s shape=%s short=%v", w, n, p, k, short),
							It: built(uintCtor(fc, short), sh[k]), Ref: ref, Big: n*w >= 65536})
						if !ok {
							return
						}
					}
				}
			}
		}
	}
	for _, fc := range floatFCs {
		w := e5.Width(fc)
		for _, n := range Counts(w, has(g.Caps, fc)) {
			pats := floatPatternNames
			if n*w > 70000 {
				pats = []string{"distinct", "alt"}
			} else if n == 0 {
				pats = []string{"zero"}
			}
			for _, p := range pats {
				xs := make([]float64, n)
				for i := range xs {
					xs[i] = floatElem(p, w, i)
				}
				ref := &e5.Val{FC: fc, F: xs}
				sh := FloatArgShapes(xs, w, g.AllShapes && n*w <= 70000)
				for _, k := range sortedKeys(sh) {
					for _, short := range []bool{false, true} {
						if short && n > 3 {
							continue
						}
						emit(Case{Desc: fmt.Sprintf("F%d n=%d pat=%s shape=%s short=%v", w, n, p, k, short),
							It: built(floatCtor(fc, short), sh[k]), Ref: ref, Big: n*w >= 65536})
						if !ok {
							return
						}
					}
				}
			}
		}
	}
	// byte-string-like leaves
	for _, fc := range []byte{e5.Binary, e5.Boolean, e5.ASCII, e5.JIS8, e5.Local} {
		cs := Counts(1, has(g.Caps, fc))
		for _, n := range cs {
			pats := []string{"cycle", "zero", "ff", "seven"}
			if n > 70000 {
				pats = []string{"cycle"}
			} else if n == 0 {
				pats = []string{"zero"}
			}
			for _, p := range pats {
				raw := make([]byte, n)
				for i := range raw {
					switch p {
					case "cycle":
						raw[i] = byte(i*7 + 1)
					case "ff":
						raw[i] = 0xFF
					case "seven":
						raw[i] = 0x7F - byte(i%3)
					}
				}
				big := n >= 65536
				switch fc {
				case e5.Binary:
					ref := &e5.Val{FC: fc, Raw: raw}
					emit(Case{Desc: fmt.Sprintf("B n=%d pat=%s shape=slice", n, p), It: built(secs2.NewBinaryItem, []any{append([]byte{}, raw...)}), Ref: ref, Big: big})
					if n <= 300 {
						emit(Case{Desc: fmt.Sprintf("B n=%d pat=%s shape=bytes", n, p), It: secs2.NewBinaryItem(scalars(raw)...), Ref: ref})
						emit(Case{Desc: fmt.Sprintf("B n=%d pat=%s shape=ints short", n, p), It: secs2.B(scalars(conv[int](raw))...), Ref: ref})
						ss := make([]string, n)
						for i, b := range raw {
							if i%2 == 0 {
								ss[i] = strconv.Itoa(int(b))
							} else {
								ss[i] = "0x" + strconv.FormatInt(int64(b), 16)
							}
						}
						emit(Case{Desc: fmt.Sprintf("B n=%d pat=%s shape=strs", n, p), It: secs2.NewBinaryItem(scalars(ss)...), Ref: ref})
						if n >= 2 {
							emit(Case{Desc: fmt.Sprintf("B n=%d pat=%s shape=mixed", n, p), It: built(secs2.NewBinaryItem, []any{raw[0], append([]byte{}, raw[1:]...)}), Ref: ref})
							emit(Case{Desc: fmt.Sprintf("B n=%d pat=%s shape=mixed2", n, p), It: secs2.NewBinaryItem(append([]byte{}, raw[:1]...), int(raw[1]), append([]byte{}, raw[2:]...)), Ref: ref})
						}
					}
				case e5.Boolean:
					bs := make([]bool, n)
					for i := range bs {
						bs[i] = raw[i]&1 == 1 || p == "ff"
					}
					ref := &e5.Val{FC: fc, Bool: bs}
					emit(Case{Desc: fmt.Sprintf("BOOLEAN n=%d pat=%s shape=slice", n, p), It: built(secs2.NewBooleanItem, []any{append([]bool{}, bs...)}), Ref: ref, Big: big})
					if n <= 300 {
						emit(Case{Desc: fmt.Sprintf("BOOLEAN n=%d pat=%s shape=scalars short", n, p), It: secs2.BOOLEAN(scalars(bs)...), Ref: ref})
						if n >= 2 {
							emit(Case{Desc: fmt.Sprintf("BOOLEAN n=%d pat=%s shape=mixed", n, p), It: built(secs2.NewBooleanItem, []any{bs[0], append([]bool{}, bs[1:]...)}), Ref: ref})
						}
					}
				case e5.ASCII:
					ref := &e5.Val{FC: fc, Raw: raw}
					emit(Case{Desc: fmt.Sprintf("A n=%d pat=%s", n, p), It: secs2.NewASCIIItem(string(raw)), Ref: ref, Big: big})
					if n <= 3 {
						emit(Case{Desc: fmt.Sprintf("A n=%d pat=%s short", n, p), It: secs2.A(string(raw)), Ref: ref})
					}
				case e5.JIS8:
					ref := &e5.Val{FC: fc, Raw: raw}
					emit(Case{Desc: fmt.Sprintf("J n=%d pat=%s", n, p), It: secs2.NewJIS8Item(string(raw)), Ref: ref, Big: big})
					if n <= 3 {
						emit(Case{Desc: fmt.Sprintf("J n=%d pat=%s short", n, p), It: secs2.J(string(raw)), Ref: ref})
					}
				case e5.Local:
					// n is the payload length including the 2-byte header
					if n < 2 {
						continue
					}
					for _, lsh := range []uint16{0, 1, 2, 0x0102, 0xFFFF} {
						if n > 3 && lsh != 0x0102 {
							continue
						}
						full := append([]byte{byte(lsh >> 8), byte(lsh)}, raw[2:]...)
						ref := &e5.Val{FC: fc, Raw: full}
						emit(Case{Desc: fmt.Sprintf("W n=%d lsh=%x pat=%s", n, lsh, p), It: secs2.NewLocalizedStrItem(lsh, string(raw[2:])), Ref: ref, Big: big})
					}
					if n <= 5 {
						full := append([]byte{0, 2}, raw[2:]...)
						emit(Case{Desc: fmt.Sprintf("W utf8 n=%d pat=%s short", n, p), It: secs2.W(string(raw[2:])), Ref: &e5.Val{FC: fc, Raw: full}})
						emit(Case{Desc: fmt.Sprintf("W utf8 n=%d pat=%s", n, p), It: secs2.NewUTF8StrItem(string(raw[2:])), Ref: &e5.Val{FC: fc, Raw: full}})
					}
				}
				if !ok {
					return
				}
			}
		}
	}
}

// SmallLeaf is the leaf alphabet used inside trees.
type SmallLeaf struct {
	Name string
	Mk   func() secs2.Item
	Ref  *e5.Val
}

// TreeLeaves is the 8-symbol leaf alphabet for tree enumeration.
func TreeLeaves() []SmallLeaf {
	return []SmallLeaf{
		{"L[]", func() secs2.Item { return secs2.NewListItem() }, &e5.Val{FC: e5.List}},
		{`A""`, func() secs2.Item { return secs2.NewASCIIItem("") }, &e5.Val{FC: e5.ASCII, Raw: []byte{}}},
		{`A"x"`, func() secs2.Item { return secs2.A("x") }, &e5.Val{FC: e5.ASCII, Raw: []byte("x")}},
		{"U1[1]", func() secs2.Item { return secs2.U1(7) }, &e5.Val{FC: e5.U1, U: []uint64{7}}},
		{"I2[2]", func() secs2.Item { return secs2.I2(-2, 258) }, &e5.Val{FC: e5.I2, I: []int64{-2, 258}}},
		{"B[0]", func() secs2.Item { return secs2.B() }, &e5.Val{FC: e5.Binary, Raw: []byte{}}},
		{"F4[1]", func() secs2.Item { return secs2.F4(float32(1.5)) }, &e5.Val{FC: e5.F4, F: []float64{1.5}}},
		{"BOOLEAN[1]", func() secs2.Item { return secs2.BOOLEAN(true) }, &e5.Val{FC: e5.Boolean, Bool: []bool{true}}},
	}
}

// Trees enumerates every ordered tree with at most maxNodes nodes whose internal
// nodes are lists and whose leaves are drawn from leaves (a node counts 1).
// The root is always a list with >= 1 child, or a single leaf.
func Trees(maxNodes int, leaves []SmallLeaf, yield func(Case) bool) {
	type tr struct {
		desc string
		mk   func() secs2.Item
		ref  *e5.Val
	}
	// byNodes[k] = all trees with exactly k nodes
	byNodes := make([][]tr, maxNodes+1)
	for _, l := range leaves {
		l := l
		byNodes[1] = append(byNodes[1], tr{l.Name, l.Mk, l.Ref})
	}
	// forests[k] = all ordered sequences of >=1 trees with total k nodes
	type forest struct {
		desc string
		mks  []func() secs2.Item
		refs []*e5.Val
	}
	forests := make([][]forest, maxNodes+1)
	for k := 1; k <= maxNodes; k++ {
		// list nodes with k nodes total: 1 + forest of k-1 nodes (k-1 >= 1)
		if k >= 2 {
			for _, f := range forests[k-1] {
				f := f
				byNodes[k] = append(byNodes[k], tr{"L(" + f.desc + ")", func() secs2.Item {
					kids := make([]secs2.Item, len(f.mks))
					for i, m := range f.mks {
						kids[i] = m()
					}
					return secs2.NewListItem(kids...)
				}, &e5.Val{FC: e5.List, Kids: f.refs}})
			}
		}
		// forests with k nodes: first tree j nodes + rest forest k-j nodes, or single tree k nodes
		for _, t := range byNodes[k] {
			forests[k] = append(forests[k], forest{t.desc, []func() secs2.Item{t.mk}, []*e5.Val{t.ref}})
		}
		for j := 1; j < k; j++ {
			for _, t := range byNodes[j] {
				for _, f := range forests[k-j] {
					forests[k] = append(forests[k], forest{t.desc + " " + f.desc,
						append([]func() secs2.Item{t.mk}, f.mks...), append([]*e5.Val{t.ref}, f.refs...)})
				}
			}
		}
	}
	for k := 1; k <= maxNodes; k++ {
		for _, t := range byNodes[k] {
			if !yield(Case{Desc: "tree " + t.desc, It: t.mk(), Ref: t.ref}) {
				return
			}
		}
	}
}

// Chain builds a list nested depth levels deep around an innermost leaf
// (depth 0 = the bare leaf).
func Chain(depth int) Case {
	it := secs2.Item(secs2.U1(9))
	ref := &e5.Val{FC: e5.U1, U: []uint64{9}}
	for i := 0; i < depth; i++ {
		it = secs2.NewListItem(it)
		ref = &e5.Val{FC: e5.List, Kids: []*e5.Val{ref}}
	}
	return Case{Desc: fmt.Sprintf("chain depth=%d", depth), It: it, Ref: ref}
}

// Bushy builds a list nested depth levels deep in which the outermost `front` levels each hold
// `sibs` empty lists BEFORE the child that continues the chain (and the innermost list holds
// `tail` empty lists): many closed lists are decoded before and beside a deep one, so any
// per-call nesting budget that is not restored when a list ends runs out although the tree
// never nests deeper than depth.
func Bushy(depth, front, sibs, tail int) Case {
	empties := func(n int) ([]secs2.Item, []*e5.Val) {
		its, refs := make([]secs2.Item, n), make([]*e5.Val, n)
		for i := range its {
			its[i], refs[i] = secs2.NewListItem(), &e5.Val{FC: e5.List}
		}
		return its, refs
	}
	its, refs := empties(tail)
	it := secs2.Item(secs2.NewListItem(its...))
	ref := &e5.Val{FC: e5.List, Kids: refs}
	for level := depth - 1; level >= 1; level-- { // level = number of lists around the one being built
		var kits []secs2.Item
		var krefs []*e5.Val
		if level <= front {
			kits, krefs = empties(sibs)
		}
		it = secs2.NewListItem(append(kits, it)...)
		ref = &e5.Val{FC: e5.List, Kids: append(krefs, ref)}
	}
	return Case{Desc: fmt.Sprintf("bushy depth=%d front=%d sibs=%d tail=%d", depth, front, sibs, tail), It: it, Ref: ref}
}

// SlabKinds are the eight decoded leaf kinds carved from the decoder's slabs.
var SlabKinds = []string{"int", "uint", "float", "ascii", "jis8", "local", "binary", "bool"}

// Wide builds a list of n same-kind single-element leaves with pairwise distinct values.
func Wide(kind string, n int) Case {
	kids := make([]secs2.Item, n)
	refs := make([]*e5.Val, n)
	for i := 0; i < n; i++ {
		switch kind {
		case "int":
			kids[i] = secs2.I4(i - 7)
			refs[i] = &e5.Val{FC: e5.I4, I: []int64{int64(i - 7)}}
		case "uint":
			kids[i] = secs2.U2(i)
			refs[i] = &e5.Val{FC: e5.U2, U: []uint64{uint64(i)}}
		case "float":
			kids[i] = secs2.F8(float64(i) + 0.5)
			refs[i] = &e5.Val{FC: e5.F8, F: []float64{float64(i) + 0.5}}
		case "ascii":
			s := strconv.Itoa(i)
			kids[i] = secs2.A(s)
			refs[i] = &e5.Val{FC: e5.ASCII, Raw: []byte(s)}
		case "jis8":
			s := "j" + strconv.Itoa(i)
			kids[i] = secs2.J(s)
			refs[i] = &e5.Val{FC: e5.JIS8, Raw: []byte(s)}
		case "local":
			s := "w" + strconv.Itoa(i)
			kids[i] = secs2.W(s)
			refs[i] = &e5.Val{FC: e5.Local, Raw: append([]byte{0, 2}, s...)}
		case "binary":
			kids[i] = secs2.B(byte(i), byte(i>>8))
			refs[i] = &e5.Val{FC: e5.Binary, Raw: []byte{byte(i), byte(i >> 8)}}
		case "bool":
			kids[i] = secs2.BOOLEAN(i%3 == 0)
			refs[i] = &e5.Val{FC: e5.Boolean, Bool: []bool{i%3 == 0}}
		}
	}
	return Case{Desc: fmt.Sprintf("wide kind=%s n=%d", kind, n), It: secs2.NewListItem(kids...), Ref: &e5.Val{FC: e5.List, Kids: refs}, Big: n >= 65535}
}
