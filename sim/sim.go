// Package sim is the in-memory network every connection-level check runs on: duplex
// byte streams, listeners and a dialer whose answers the harness decides. It is used
// inside a testing/synctest bubble, so deadlines are virtual-time timers and a blocked
// Read/Write/Accept is a durable block. Everything the library does to a socket is
// logged (bytes with their virtual write time, Close calls, deadline calls).
//
// The package uses only simq.Mutex, channels and timers so that the E3 instrumenter can
// rewrite it like the library code.
package sim

import (
	"context"
	"errors"
	"io"
	"net"
	"os"
	"sync"
	"sync/atomic"
	"time"

	"verif/simq"
)

// Chunk is one Write as seen on the wire.
type Chunk struct {
	At   time.Duration // virtual time since Net creation
	Data []byte
}

type half struct {
	mu         simq.Mutex
	buf        []byte
	eof        bool // writer closed: reader sees EOF after draining buf
	reset      bool // connection reset: reader and writer see an error at once
	readerGone bool // the reading end called Close: writes into this half fail
	limit      int  // 0 = unbounded; otherwise Write blocks while len(buf) >= limit
	wake       chan struct{}
	space      chan struct{}
	written    []Chunk // everything ever written into this half
}

func newHalf() *half {
	return &half{wake: make(chan struct{}, 1), space: make(chan struct{}, 1)}
}

func poke(ch chan struct{}) { simq.Poke(ch) }

// visibleOps is bumped once at the start of every network operation the other side can
// observe. In the instrumented build (engine E3) the atomic is a scheduling point, so each
// such operation is exactly one decision of the schedule — the environment's actions can be
// interleaved with the library one at a time — while sim's internal bookkeeping is not.
var visibleOps atomic.Int64

func yield() { visibleOps.Add(1) }

// Conn is one end of a simulated TCP connection.
type Conn struct {
	net      *Net
	Name     string
	rd, wr   *half
	mu       simq.Mutex
	rdl, wdl time.Time
	closedCh chan struct{}
	once     sync.Once
	rdlCh    chan struct{}
	wdlCh    chan struct{}
	// log
	Closed      bool
	CloseCalls  int
	ClosedAt    time.Duration
	ReadDLCalls int
	Handed      bool // the library received this socket (dial returned it / Accept returned it)
}

type timeoutErr struct{}

func (timeoutErr) Error() string   { return "i/o timeout" }
func (timeoutErr) Timeout() bool   { return true }
func (timeoutErr) Temporary() bool { return true }
func (timeoutErr) Unwrap() error   { return os.ErrDeadlineExceeded }

// ErrReset is what both directions report after Reset.
var ErrReset = errors.New("sim: connection reset by peer")

// ErrRefused is the dial error for a refused connection.
var ErrRefused = errors.New("sim: connection refused")

func (n *Net) pipe(libName, peerName string) (lib, peer *Conn) {
	a, b := newHalf(), newHalf()
	lib = &Conn{net: n, Name: libName, rd: a, wr: b, closedCh: make(chan struct{}), rdlCh: make(chan struct{}, 1), wdlCh: make(chan struct{}, 1)}
	peer = &Conn{net: n, Name: peerName, rd: b, wr: a, closedCh: make(chan struct{}), rdlCh: make(chan struct{}, 1), wdlCh: make(chan struct{}, 1)}
	return lib, peer
}

func (c *Conn) isClosed() bool {
	c.mu.Lock()
	defer c.mu.Unlock()
	return c.Closed
}

// Read implements net.Conn.
func (c *Conn) Read(p []byte) (int, error) {
	yield()
	for {
		c.rd.mu.Lock()
		if c.rd.reset {
			c.rd.mu.Unlock()
			return 0, ErrReset
		}
		if len(c.rd.buf) > 0 && !c.isClosed() {
			n := copy(p, c.rd.buf)
			c.rd.buf = c.rd.buf[n:]
			c.rd.mu.Unlock()
			poke(c.rd.space)
			return n, nil
		}
		eof := c.rd.eof
		c.rd.mu.Unlock()
		if c.isClosed() {
			return 0, net.ErrClosed
		}
		if eof {
			return 0, io.EOF
		}
		c.mu.Lock()
		dl := c.rdl
		c.mu.Unlock()
		var tc <-chan time.Time
		var tm *time.Timer
		if !dl.IsZero() {
			d := time.Until(dl)
			if d <= 0 {
				return 0, timeoutErr{}
			}
			tm = time.NewTimer(d)
			tc = tm.C
		}
		// deterministic priority among simultaneously ready wake-ups
		select {
		case <-c.rd.wake:
		default:
			select {
			case <-c.closedCh:
			default:
				select {
				case <-c.rdlCh:
				default:
					select {
					case <-c.rd.wake:
					case <-c.closedCh:
					case <-tc:
					case <-c.rdlCh:
					}
				}
			}
		}
		if tm != nil {
			tm.Stop()
		}
	}
}

// Write implements net.Conn.
func (c *Conn) Write(p []byte) (int, error) {
	yield()
	for {
		if c.isClosed() {
			return 0, net.ErrClosed
		}
		c.wr.mu.Lock()
		if c.wr.reset {
			c.wr.mu.Unlock()
			return 0, ErrReset
		}
		if c.wr.eof {
			// our own Close marks wr.eof; the peer's Close marks rd of the other side.
			c.wr.mu.Unlock()
			return 0, net.ErrClosed
		}
		peerGone := c.peerClosed()
		if peerGone {
			c.wr.mu.Unlock()
			return 0, errors.New("sim: broken pipe")
		}
		if c.wr.limit == 0 || len(c.wr.buf) < c.wr.limit {
			data := append([]byte(nil), p...)
			c.wr.buf = append(c.wr.buf, data...)
			c.wr.written = append(c.wr.written, Chunk{At: c.net.Since(), Data: data})
			c.wr.mu.Unlock()
			poke(c.wr.wake)
			return len(p), nil
		}
		c.wr.mu.Unlock()
		// window full: block until space, close, reset, or the write deadline
		c.mu.Lock()
		dl := c.wdl
		c.mu.Unlock()
		var tc <-chan time.Time
		var tm *time.Timer
		if !dl.IsZero() {
			d := time.Until(dl)
			if d <= 0 {
				return 0, timeoutErr{}
			}
			tm = time.NewTimer(d)
			tc = tm.C
		}
		select {
		case <-c.wr.space:
		case <-c.closedCh:
		case <-tc:
		case <-c.wdlCh:
		}
		if tm != nil {
			tm.Stop()
		}
	}
}

// peerClosed reports whether the other end has closed (its Close sets eof on the half we
// write into ... which is the half it reads from; we track that with a flag on that half).
func (c *Conn) peerClosed() bool { return c.wr.readerGone }

// Close implements net.Conn: the other side reads EOF after draining, our own pending and
// later Reads/Writes fail with net.ErrClosed.
func (c *Conn) Close() error {
	yield()
	c.mu.Lock()
	c.CloseCalls++
	c.mu.Unlock()
	c.once.Do(func() {
		c.mu.Lock()
		c.Closed = true
		c.ClosedAt = c.net.Since()
		c.mu.Unlock()
		close(c.closedCh)
		c.wr.mu.Lock()
		c.wr.eof = true
		c.wr.mu.Unlock()
		poke(c.wr.wake)
		c.rd.mu.Lock()
		c.rd.readerGone = true
		c.rd.mu.Unlock()
		poke(c.rd.space)
	})
	return nil
}

// Reset aborts the connection in both directions (RST): unread bytes are discarded and
// both ends see ErrReset on their next/pending Read or Write.
func (c *Conn) Reset() {
	yield()
	for _, h := range []*half{c.rd, c.wr} {
		h.mu.Lock()
		h.reset = true
		h.buf = nil
		h.mu.Unlock()
		poke(h.wake)
		poke(h.space)
	}
}

// SetWindow bounds how many unread bytes the OTHER side may have outstanding towards
// this end before its Write blocks (0 = unbounded). SetWindow(1) with nothing read is a
// stalled peer: the first byte-carrying Write succeeds, the next blocks; use Stall().
func (c *Conn) SetWindow(n int) {
	c.rd.mu.Lock()
	c.rd.limit = n
	c.rd.mu.Unlock()
	poke(c.rd.space)
}

// Stall makes every Write of the other side block (until its write deadline) by
// declaring the receive window full; Unstall reverts.
func (c *Conn) Stall() {
	c.rd.mu.Lock()
	c.rd.limit = -1
	c.rd.mu.Unlock()
}

// Unstall lifts Stall.
func (c *Conn) Unstall() { c.SetWindow(0) }

// Drain returns (and consumes) everything readable now without blocking. For the
// harness-held peer end.
func (c *Conn) Drain() []byte {
	c.rd.mu.Lock()
	b := c.rd.buf
	c.rd.buf = nil
	c.rd.mu.Unlock()
	poke(c.rd.space)
	return b
}

// Pending returns how many bytes are readable now.
func (c *Conn) Pending() int {
	c.rd.mu.Lock()
	defer c.rd.mu.Unlock()
	return len(c.rd.buf)
}

// SawEOF reports whether the other end has closed (and nothing is left to read).
func (c *Conn) SawEOF() bool {
	c.rd.mu.Lock()
	defer c.rd.mu.Unlock()
	return (c.rd.eof && len(c.rd.buf) == 0) || c.rd.reset
}

// RemoteClosed reports whether the other end has closed or reset the connection (unread
// bytes may remain).
func (c *Conn) RemoteClosed() bool {
	c.rd.mu.Lock()
	defer c.rd.mu.Unlock()
	return c.rd.eof || c.rd.reset
}

// Received returns every chunk the other side has written towards this end (whether or
// not it has been read), with virtual write times.
func (c *Conn) Received() []Chunk {
	c.rd.mu.Lock()
	defer c.rd.mu.Unlock()
	return append([]Chunk(nil), c.rd.written...)
}

// IsClosed reports whether Close was called on this end.
func (c *Conn) IsClosed() bool { return c.isClosed() }

func (c *Conn) LocalAddr() net.Addr  { return &net.TCPAddr{IP: net.IPv4(127, 0, 0, 1), Port: 1} }
func (c *Conn) RemoteAddr() net.Addr { return &net.TCPAddr{IP: net.IPv4(127, 0, 0, 1), Port: 2} }
func (c *Conn) SetDeadline(t time.Time) error {
	_ = c.SetReadDeadline(t)
	return c.SetWriteDeadline(t)
}
func (c *Conn) SetReadDeadline(t time.Time) error {
	if c.isClosed() {
		return net.ErrClosed
	}
	c.mu.Lock()
	c.rdl = t
	c.ReadDLCalls++
	c.mu.Unlock()
	poke(c.rdlCh)
	return nil
}
func (c *Conn) SetWriteDeadline(t time.Time) error {
	if c.isClosed() {
		return net.ErrClosed
	}
	c.mu.Lock()
	c.wdl = t
	c.mu.Unlock()
	poke(c.wdlCh)
	return nil
}

// Listener is a simulated listening socket.
type Listener struct {
	net     *Net
	mu      simq.Mutex
	backlog []*Conn
	wake    chan struct{}
	closed  chan struct{}
	once    sync.Once
	// log
	Closed     bool
	CloseCalls int
	OpenedAt   time.Duration
}

func (l *Listener) Accept() (net.Conn, error) {
	yield()
	for {
		select {
		case <-l.closed:
			return nil, net.ErrClosed
		default:
		}
		l.mu.Lock()
		if len(l.backlog) > 0 {
			c := l.backlog[0]
			l.backlog = l.backlog[1:]
			l.mu.Unlock()
			c.mu.Lock()
			c.Handed = true
			c.mu.Unlock()
			return c, nil
		}
		l.mu.Unlock()
		select {
		case <-l.wake:
		case <-l.closed:
		}
	}
}

func (l *Listener) Close() error {
	yield()
	l.mu.Lock()
	l.CloseCalls++
	l.mu.Unlock()
	l.once.Do(func() {
		l.mu.Lock()
		l.Closed = true
		pend := l.backlog
		l.backlog = nil
		l.mu.Unlock()
		close(l.closed)
		for _, c := range pend {
			c.Reset()
		}
	})
	return nil
}
func (l *Listener) Addr() net.Addr { return &net.TCPAddr{IP: net.IPv4(127, 0, 0, 1), Port: 5000} }

// IsClosed reports whether the library closed this listener.
func (l *Listener) IsClosed() bool {
	select {
	case <-l.closed:
		return true
	default:
		return false
	}
}

// DialAnswer is how the simulated network answers one dial attempt.
type DialAnswer int

const (
	Accept    DialAnswer = iota // the connection is established at once
	Refuse                      // connection refused at once
	Blackhole                   // no answer: the dial blocks until its context ends
)

// DialRec logs one dial attempt.
type DialRec struct {
	At     time.Duration
	Answer DialAnswer
}

// Net is the simulated network of one execution.
type Net struct {
	start time.Time
	mu    simq.Mutex
	// dial side
	Plan      func(attempt int) DialAnswer // default: Accept
	Dials     []DialRec
	peers     []*Conn // peer ends of accepted dials, not yet taken by the harness
	LibConns  []*Conn // every library-side conn ever handed out (dial or accept)
	PeerConns []*Conn // every harness-side end ever created
	Listeners []*Listener
	ListenErr func(attempt int) error // optional: make the n-th listen fail
	listens   int
	peerWake  chan struct{}
}

// New creates the network; call it inside the bubble.
func New() *Net {
	return &Net{start: time.Now(), peerWake: make(chan struct{}, 1)}
}

// Since is the virtual time since the network was created.
func (n *Net) Since() time.Duration { return time.Since(n.start) }

// Dial is an hsms.DialFunc.
func (n *Net) Dial(ctx context.Context, network, address string) (net.Conn, error) {
	yield()
	n.mu.Lock()
	attempt := len(n.Dials)
	ans := Accept
	if n.Plan != nil {
		ans = n.Plan(attempt)
	}
	n.Dials = append(n.Dials, DialRec{At: n.Since(), Answer: ans})
	n.mu.Unlock()
	switch ans {
	case Refuse:
		return nil, ErrRefused
	case Blackhole:
		<-ctx.Done()
		return nil, ctx.Err()
	}
	if err := ctx.Err(); err != nil {
		return nil, err
	}
	lib, peer := n.pipe("lib", "peer")
	lib.Handed = true
	n.mu.Lock()
	n.LibConns = append(n.LibConns, lib)
	n.peers = append(n.peers, peer)
	n.PeerConns = append(n.PeerConns, peer)
	n.mu.Unlock()
	poke(n.peerWake)
	return lib, nil
}

// TakePeer returns the harness end of the oldest accepted dial not yet taken (nil if none).
func (n *Net) TakePeer() *Conn {
	n.mu.Lock()
	defer n.mu.Unlock()
	if len(n.peers) == 0 {
		return nil
	}
	p := n.peers[0]
	n.peers = n.peers[1:]
	return p
}

// WaitPeer is TakePeer that waits up to d (virtual time) for a dial to be accepted.
func (n *Net) WaitPeer(d time.Duration) *Conn {
	tm := time.NewTimer(d)
	defer tm.Stop()
	for {
		if p := n.TakePeer(); p != nil {
			return p
		}
		select {
		case <-n.peerWake:
		case <-tm.C:
			return n.TakePeer()
		}
	}
}

// Listen is an hsms.ListenFunc.
func (n *Net) Listen(ctx context.Context, network, address string) (net.Listener, error) {
	n.mu.Lock()
	k := n.listens
	n.listens++
	n.mu.Unlock()
	if n.ListenErr != nil {
		if err := n.ListenErr(k); err != nil {
			return nil, err
		}
	}
	l := &Listener{net: n, wake: make(chan struct{}, 1), closed: make(chan struct{}), OpenedAt: n.Since()}
	n.mu.Lock()
	n.Listeners = append(n.Listeners, l)
	n.mu.Unlock()
	return l, nil
}

// LiveListener returns the newest listener that is not closed (nil if none).
func (n *Net) LiveListener() *Listener {
	n.mu.Lock()
	defer n.mu.Unlock()
	for i := len(n.Listeners) - 1; i >= 0; i-- {
		if !n.Listeners[i].IsClosed() {
			return n.Listeners[i]
		}
	}
	return nil
}

// Connect is the harness connecting to the library's listening socket: it returns the
// harness end, or nil when nothing is listening (connection refused). The connection
// sits in the listener's backlog until the library accepts it.
func (n *Net) Connect() *Conn {
	yield()
	l := n.LiveListener()
	if l == nil {
		return nil
	}
	lib, peer := n.pipe("lib", "peer")
	n.mu.Lock()
	n.LibConns = append(n.LibConns, lib)
	n.PeerConns = append(n.PeerConns, peer)
	n.mu.Unlock()
	l.mu.Lock()
	if l.Closed {
		// the listener was closed between the lookup and the enqueue: connection refused
		l.mu.Unlock()
		return nil
	}
	l.backlog = append(l.backlog, lib)
	l.mu.Unlock()
	poke(l.wake)
	return peer
}

// ClosePeerEnds closes every harness-side end (so that harness goroutines blocked in a
// Read return and the bubble can end).
func (n *Net) ClosePeerEnds() {
	n.mu.Lock()
	ps := append([]*Conn(nil), n.PeerConns...)
	n.mu.Unlock()
	for _, p := range ps {
		_ = p.Close()
	}
}

// DialCount is the number of dial attempts so far.
func (n *Net) DialCount() int {
	n.mu.Lock()
	defer n.mu.Unlock()
	return len(n.Dials)
}

// DialLog returns a copy of the dial log.
func (n *Net) DialLog() []DialRec {
	n.mu.Lock()
	defer n.mu.Unlock()
	return append([]DialRec(nil), n.Dials...)
}

// Unclosed lists library-side sockets and listeners that have not seen Close.
func (n *Net) Unclosed() (conns, listeners int) {
	n.mu.Lock()
	defer n.mu.Unlock()
	for _, c := range n.LibConns {
		c.mu.Lock()
		handed := c.Handed
		c.mu.Unlock()
		// a connection still sitting in a listener's backlog was never given to the library
		if handed && !c.isClosed() {
			conns++
		}
	}
	for _, l := range n.Listeners {
		if !l.IsClosed() {
			listeners++
		}
	}
	return
}
